// Triage (C13): storage_properties_set_dimension memset()s the dimension before copying the new name:
// setting a dimension that is already set leaks the previous name ("each allocation is released exactly once").
#include "device/props/storage.h"
#include <stdio.h>
#include <stdlib.h>
#include <string.h>
static size_t live = 0, allocs = 0;
/* count allocations of storage.c through the wrappers below (storage.c is #included) */
static void* t_malloc(size_t n){ void* p = malloc(n + 16); if(!p) return 0; *(size_t*)p = n; ++live; ++allocs; return (char*)p + 16; }
static void t_free(void* q){ if(!q) return; --live; free((char*)q - 16); }
static void* t_realloc(void* q, size_t n){ if(!q) return t_malloc(n); void* p = realloc((char*)q - 16, n + 16); if(!p) return 0; *(size_t*)p = n; return (char*)p + 16; }
#define malloc t_malloc
#define free t_free
#define realloc t_realloc
#include "device/props/storage.c"
#undef malloc
#undef free
#undef realloc
int main(){
  struct StorageProperties p = {0}; struct PixelScale ps = {1,1};
  storage_properties_init(&p, 0, "out", 4, 0, 0, ps, 2);
  storage_properties_set_dimension(&p, 0, "x", 2, DimensionType_Space, 64, 32, 1);
  storage_properties_set_dimension(&p, 1, "y", 2, DimensionType_Space, 48, 24, 1);
  storage_properties_set_dimension(&p, 0, "width", 6, DimensionType_Space, 64, 16, 1);   // set again
  storage_properties_destroy(&p);
  printf("%zu allocation(s) made, %zu still live after destroy\n", allocs, live);
  if (live) { printf("DEFECT: an allocation was never released (the name of a dimension that was set twice)\n"); return 1; }
  printf("ok\n"); return 0; }
