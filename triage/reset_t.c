// Finding (C16/C08): storage_set on a Running device re-armed it without
// stopping it; the open file was orphaned and the next start leaked it.
#include "device/hal/storage.h"
#include "device/hal/driver.h"
#include "device/kit/storage.h"
#include "device/props/storage.h"
#include <stdio.h>
#include <stdlib.h>
#include <string.h>
#include <dirent.h>
struct Storage* raw_init();
#define containerof(P,T,F) ((T*)(((char*)(P))-offsetof(T,F)))
static enum DeviceStatusCode d_close(struct Driver* d, struct Device* dev){ struct Storage* s=containerof(dev,struct Storage,device); s->destroy(s); return Device_Ok; }
static int nfds(){ int n=0; DIR* d=opendir("/proc/self/fd"); while(readdir(d)) n++; closedir(d); return n-3; }
int main(){ struct Driver drv={.close=d_close}; struct Storage* s=raw_init(); s->device.driver=&drv;
  struct StorageProperties p={0}; struct PixelScale ps={1,1};
  size_t n=sizeof(struct VideoFrame)+64; struct VideoFrame* f=calloc(1,n); f->bytes_of_frame=n;
  int before=nfds();
  storage_properties_init(&p,0,"r1.raw",7,0,0,ps,0);
  storage_set(s,&p); storage_start(s); storage_append(s,f,(struct VideoFrame*)((char*)f+n));
  storage_properties_set_uri(&p,"r2.raw",7);
  storage_set(s,&p);                       // re-configure while running
  printf("state after set on a running device: %s; descriptors open: %d\n", device_state_as_string(storage_get_state(s)), nfds()-before);
  storage_start(s); storage_append(s,f,(struct VideoFrame*)((char*)f+n)); storage_stop(s);
  printf("after second acquisition + stop: descriptors still open: %d (must be 0)\n", nfds()-before);
  storage_close(s); return 0; }
