// Replay (C02): a ninth reader registers on a channel whose hold table has
// eight slots.  reader_initialize() stores into holds.cycles[8] / holds.pos[8]
// before it looks at the count: cycles[8] is holds.n itself, pos[8] is
// holds.cycles[0].  With the writer in lap 0 the reader count becomes 0: the
// writer believes nobody reads and hands out bytes the first reader has mapped.
#include "runtime/channel.h"
#include <stdio.h>
#include <string.h>
#include <pthread.h>
#include <unistd.h>
static struct channel c; static void* volatile granted; static volatile int returned;
static void* writer(void* a){ granted=channel_write_map(&c,60); returned=1; return 0; }
int main(){
  channel_new(&c,100);
  struct channel_reader r[9]; memset(r,0,sizeof(r));
  for(int i=0;i<8;i++){ channel_read_map(&c,&r[i]); channel_read_unmap(&c,&r[i],0); }   // eight readers: the table is full
  memset(channel_write_map(&c,60),'A',60); channel_write_unmap(&c);
  struct slice s=channel_read_map(&c,&r[0]);                                             // reader 1 holds [0,60)
  printf("reader 1 maps %ld bytes at offset %ld; readers registered: %u\n",(long)(s.end-s.beg),(long)(s.beg-c.data),c.holds.n);
  struct slice t=channel_read_map(&c,&r[8]);                                             // the ninth reader
  printf("ninth reader: status=%d, %ld bytes; readers registered now: %u\n",r[8].status,(long)(t.end-t.beg),c.holds.n);
  channel_read_unmap(&c,&r[8],0);
  pthread_t th; pthread_create(&th,0,writer,0); sleep(1);                                // 40 bytes are free: a request for 60 must wait
  if(returned && granted){ long off=(uint8_t*)granted-c.data; printf("writer was granted [%ld,%ld) while reader 1 still has [0,60) mapped\n",off,off+60);
         if(off<60){ puts("DEFECT: the writer's region overlaps bytes a reader has mapped"); return 1; } }
  if(!returned) puts("writer waits for reader 1 to release its region");
  puts("ok: the ninth reader is refused and the table is intact"); return 0; }
