// Replay (C17): a pixel type outside the enumeration reaches the buffer
// sizing of simcam_set: bytes_of_type() is 0, so realloc(p, 0) releases the
// block and returns NULL, and checked_realloc's failure branch frees it again.
// Build with ASan to see the report; a normal build aborts inside glibc.
#include "device/kit/camera.h"
#include "simulated.camera.h"
#include <stdio.h>
int main(){
  struct Camera* cam = simcam_make_camera(BasicDevice_Camera_Random);
  struct CameraProperties p = {0}; cam->get(cam, &p);
  p.shape.x = 64; p.shape.y = 48;
  if (cam->set(cam, &p) != Device_Ok) { puts("first set failed"); return 2; }
  p.pixel_type = (enum SampleType)57;
  int rc = cam->set(cam, &p);
  printf("set with pixel type 57 returned %s\n", rc == Device_Ok ? "Device_Ok" : "Device_Err");
  cam->get(cam, &p);
  printf("pixel type in effect afterwards: %d\n", (int)p.pixel_type);
  puts("ok: rejected without touching the buffers"); return 0; }
