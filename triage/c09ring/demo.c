// C09 replay: "a storage failure while the source is blocked on the full ring
// makes acquire_stop() hang".
//
// Drives the project's real runtime -- acquire.c (acquire_init / configure /
// start / stop), source.c, sink.c, filter.c, channel.c, the HAL camera.c /
// storage.c / driver.c -- with a fake camera and a fake storage device plugged
// in through the real `struct Camera` / `struct Storage` / `struct Driver`
// function tables (fakes.c).
//
// The only thing that differs from the shipped acquire.c is the capacity of the
// rings: acquire_init() hard-codes `1ULL << 30`; here the third argument of
// video_sink_init()/video_filter_init() is replaced by DEMO_RING_BYTES so that
// the ring fills after a dozen frames instead of a gigabyte.  The capacity is
// not part of the defect, it only decides how long it takes to get there.
//
// usage: demo [direct|avg|plain-direct|plain-avg]
//   direct  frame averaging off: the source writes into sink.in      (default)
//   avg     frame averaging on : source -> filter.in -> filter -> sink.in
//   retry   as direct; then start again while the storage still fails (step 6')
//   plain-* control: no storage failure at all, only the healthy run of step 6
//           (DEMO_RESTART_FRAMES=<n> sets its max_frame_count)
//   DEMO_VERBOSE=1 also prints the runtime's non-error log lines
//
// exit 0  "ok: stop returned"
// exit 1  "DEFECT: stop did not return"
// exit 2  the demo could not set the situation up (not a verdict)
// exit 3  stop returned, but the acquisition could not be restarted afterwards
// exit 4  (mode retry) the second acquire_stop() did not return

#define _GNU_SOURCE
#include "runtime/video.h" // declarations first: the macros below must not
                           // touch the prototypes (header guards do the rest)

#ifndef DEMO_RING_BYTES
#define DEMO_RING_BYTES (16u << 10)
#endif
#define video_sink_init(self, id, capacity, cb)                                \
    video_sink_init((self), (id), (DEMO_RING_BYTES), (cb))
#define video_filter_init(self, id, capacity, out)                             \
    video_filter_init((self), (id), (DEMO_RING_BYTES), (out))
#include "acquire.c" // the real thing, incl. `struct runtime`
#undef video_sink_init
#undef video_filter_init

#include "fakes.h"

#include <pthread.h>
#include <stdio.h>
#include <stdlib.h>
#include <string.h>
#include <time.h>
#include <unistd.h>

int
triage_channel_write_would_proceed(struct channel* self, size_t nbytes);

#define SAY(...)                                                               \
    do {                                                                       \
        printf(__VA_ARGS__);                                                   \
        printf("\n");                                                          \
        fflush(stdout);                                                        \
    } while (0)

#define ALIGN8(n) (8 * (((n) + 7) / 8))
#define FRAME_BYTES                                                            \
    ALIGN8(sizeof(struct VideoFrame) + (size_t)FAKE_WIDTH * FAKE_HEIGHT)
#define ACC_BYTES                                                              \
    ALIGN8(sizeof(struct VideoFrame) + 4 * (size_t)FAKE_WIDTH * FAKE_HEIGHT)

static int g_verbose = 0;

static void
reporter(int is_error,
         const char* file,
         int line,
         const char* function,
         const char* msg)
{
    if (is_error || g_verbose) {
        const char* base = strrchr(file, '/');
        printf("    [acquire %s] %s:%d %s(): %s\n",
               is_error ? "ERROR" : "info ",
               base ? base + 1 : file,
               line,
               function,
               msg);
        fflush(stdout);
    }
}

static void
sleep_ms(int ms)
{
    struct timespec t = { .tv_sec = ms / 1000,
                          .tv_nsec = (long)(ms % 1000) * 1000000L };
    nanosleep(&t, 0);
}

static double
now_ms(void)
{
    struct timespec t;
    clock_gettime(CLOCK_MONOTONIC, &t);
    return 1e3 * (double)t.tv_sec + 1e-6 * (double)t.tv_nsec;
}

//
//  The situation the demo waits for
//

struct situation
{
    struct video_s* video;
    int averaging;
};

/// The source thread is between camera_get_image_shape() and
/// camera_get_frame(), i.e. at channel_write_map(), and the wait predicate of
/// that channel_write_map() is false.  While the storage holds the sink thread
/// inside append() no reader can release anything, so this state is final: the
/// source sleeps (or is about to sleep) on `notify_space_available`.
static int
source_is_blocked_on_full_ring(const struct situation* s)
{
    const uint64_t f = fake_camera_frame_calls();
    const uint64_t sh = fake_camera_shape_calls();
    if (sh != f + 1)
        return 0;
    if (!s->averaging) {
        return !triage_channel_write_would_proceed(&s->video->sink.in,
                                                   FRAME_BYTES);
    }
    // averaging: the filter must be stuck on sink.in (no room for another
    // accumulator) and the source on filter.in.
    return !triage_channel_write_would_proceed(&s->video->filter.in,
                                               FRAME_BYTES) &&
           !triage_channel_write_would_proceed(&s->video->sink.in, ACC_BYTES);
}

static int
wait_for(int (*cond)(const void*), const void* arg, int timeout_ms)
{
    const double t0 = now_ms();
    while (!cond(arg)) {
        if (now_ms() - t0 > timeout_ms)
            return 0;
        sleep_ms(1);
    }
    return 1;
}

static int
cond_in_gate(const void* arg)
{
    (void)arg;
    return fake_storage_is_in_gate();
}

static int
cond_blocked(const void* arg)
{
    return source_is_blocked_on_full_ring((const struct situation*)arg);
}

static int
cond_sink_thread_done(const void* arg)
{
    const struct situation* s = (const struct situation*)arg;
    return !s->video->sink.is_running;
}

//
//  acquire_stop() under a watchdog
//

struct stopper
{
    struct AcquireRuntime* runtime;
    pthread_mutex_t lock;
    pthread_cond_t cond;
    int done;
    enum AcquireStatusCode result;
};

static void*
stopper_main(void* arg)
{
    struct stopper* self = (struct stopper*)arg;
    enum AcquireStatusCode r = acquire_stop(self->runtime);
    pthread_mutex_lock(&self->lock);
    self->result = r;
    self->done = 1;
    pthread_cond_broadcast(&self->cond);
    pthread_mutex_unlock(&self->lock);
    return 0;
}

static void
stopper_launch(struct stopper* self, struct AcquireRuntime* runtime)
{
    pthread_t t;
    *self = (struct stopper){ .runtime = runtime,
                              .lock = PTHREAD_MUTEX_INITIALIZER };
    pthread_condattr_t attr;
    pthread_condattr_init(&attr);
    pthread_condattr_setclock(&attr, CLOCK_MONOTONIC);
    pthread_cond_init(&self->cond, &attr);
    pthread_create(&t, 0, stopper_main, self);
    pthread_detach(t);
}

/// @returns 1 if acquire_stop() came back within `timeout_ms`
static int
stopper_wait(struct stopper* self, int timeout_ms)
{
    struct timespec deadline;
    clock_gettime(CLOCK_MONOTONIC, &deadline);
    deadline.tv_sec += timeout_ms / 1000;
    deadline.tv_nsec += (long)(timeout_ms % 1000) * 1000000L;
    if (deadline.tv_nsec >= 1000000000L) {
        deadline.tv_sec += 1;
        deadline.tv_nsec -= 1000000000L;
    }
    pthread_mutex_lock(&self->lock);
    while (!self->done) {
        if (pthread_cond_timedwait(&self->cond, &self->lock, &deadline))
            break;
    }
    const int done = self->done;
    pthread_mutex_unlock(&self->lock);
    return done;
}

static void
print_state(const char* when, struct video_s* v)
{
    struct channel* c = &v->sink.in;
    lock_acquire(&c->lock);
    SAY("  state %s:", when);
    SAY("    source: is_running=%d is_stopping=%d   filter: is_running=%d   "
        "sink: is_running=%d",
        v->source.is_running,
        v->source.is_stopping,
        v->filter.is_running,
        v->sink.is_running);
    SAY("    sink.in: capacity=%zu head=%zu high=%zu cycle=%zu "
        "accepting_writes=%d readers=%u",
        c->capacity,
        c->head,
        c->high,
        c->cycle,
        (int)c->is_accepting_writes,
        c->holds.n);
    for (unsigned i = 0; i < c->holds.n; ++i)
        SAY("      reader %u%s hold: pos=%zu cycle=%zu",
            i + 1,
            (v->sink.reader.id == i + 1) ? " (sink)" : "",
            c->holds.pos[i],
            c->holds.cycles[i]);
    lock_release(&c->lock);
    SAY("    camera: get_shape calls=%llu get_frame calls=%llu",
        (unsigned long long)fake_camera_shape_calls(),
        (unsigned long long)fake_camera_frame_calls());
}

static void
fill_props(struct AcquireProperties* props,
           uint64_t max_frame_count,
           int averaging)
{
    memset(props, 0, sizeof(*props));
    struct aq_properties_video_s* v = &props->video[0];
    v->camera.identifier = (struct DeviceIdentifier){
        .driver_id = 0,
        .device_id = FAKE_DEVICE_ID_CAMERA,
        .kind = DeviceKind_Camera,
    };
    v->camera.settings.binning = 1;
    v->camera.settings.exposure_time_us = 1e3f;
    v->storage.identifier = (struct DeviceIdentifier){
        .driver_id = 0,
        .device_id = FAKE_DEVICE_ID_STORAGE,
        .kind = DeviceKind_Storage,
    };
    v->storage.write_delay_ms = 0;
    v->max_frame_count = max_frame_count;
    v->frame_average_count = averaging ? 2 : 0;
    // stream 1 stays DeviceKind_None/None: disabled
}

int
main(int argc, char** argv)
{
    const char* mode = argc > 1 ? argv[1] : "direct";
    const int averaging = !strcmp(mode, "avg") || !strcmp(mode, "plain-avg");
    // retry: as `direct`, then step 6' instead of step 6
    // plain-*: control experiment, only the healthy run of step 6
    const int plain = !strncmp(mode, "plain", 5);
    g_verbose = getenv("DEMO_VERBOSE") != 0;
    alarm(60); // last resort, nothing below should take longer than ~10 s

    SAY("C09 replay (%s): frame=%zu B, accumulator=%zu B, ring=%u B",
        averaging ? "avg: source->filter->sink" : "direct: source->sink",
        (size_t)FRAME_BYTES,
        (size_t)ACC_BYTES,
        (unsigned)DEMO_RING_BYTES);

    struct AcquireRuntime* runtime = acquire_init(reporter);
    if (!runtime) {
        SAY("SETUP FAILED: acquire_init");
        return 2;
    }
    struct runtime* rt = containerof(runtime, struct runtime, handle);
    struct video_s* video = &rt->video[0];
    struct situation sit = { .video = video, .averaging = averaging };

    if (video->sink.in.capacity != DEMO_RING_BYTES) {
        SAY("SETUP FAILED: ring capacity is %zu", video->sink.in.capacity);
        return 2;
    }

    //
    //  1. configure + start; the storage accepts two appends, then stalls
    //
    struct AcquireProperties props;
    struct stopper stopper;
    if (plain)
        goto HealthyRun;
    fill_props(&props, 1ULL << 40, averaging);
    fake_storage_set_mode(FakeStorage_BlockThenFail, 2);
    if (acquire_configure(runtime, &props) != AcquireStatus_Ok ||
        rt->valid_video_streams != 1) {
        SAY("SETUP FAILED: acquire_configure");
        return 2;
    }
    fake_camera_reset_stats();
    fake_storage_reset_stats();
    if (acquire_start(runtime) != AcquireStatus_Ok) {
        SAY("SETUP FAILED: acquire_start");
        return 2;
    }
    SAY("step 1: acquire_start() ok; storage: 2 appends succeed, the 3rd "
        "stalls");

    //
    //  2. the sink thread is inside storage append (region mapped, hold fixed)
    //
    if (!wait_for(cond_in_gate, 0, 5000)) {
        SAY("SETUP FAILED: the sink never reached the stalling append");
        return 2;
    }
    SAY("step 2: sink thread is inside the stalling storage_append()");

    //
    //  3. the ring fills; the source blocks in channel_write_map
    //
    if (!wait_for(cond_blocked, &sit, 5000)) {
        print_state("(setup failed)", video);
        SAY("SETUP FAILED: the source did not block on the full ring");
        return 2;
    }
    const uint64_t frames_when_blocked = fake_camera_frame_calls();
    sleep_ms(100);
    if (!source_is_blocked_on_full_ring(&sit) ||
        fake_camera_frame_calls() != frames_when_blocked) {
        SAY("SETUP FAILED: the blocked state was not stable");
        return 2;
    }
    SAY("step 3: ring full; source thread is blocked in channel_write_map() "
        "after %llu frames",
        (unsigned long long)frames_when_blocked);
    print_state("before the storage failure", video);

    //
    //  4. the storage append fails -> video_sink_thread leaves through Error:
    //
    SAY("step 4: storage append now FAILS (DeviceState_AwaitingConfiguration)");
    fake_storage_open_gate();
    if (!wait_for(cond_sink_thread_done, &sit, 5000)) {
        SAY("SETUP FAILED: the sink thread did not exit");
        return 2;
    }
    sleep_ms(200); // give a woken writer every chance to get out
    print_state("after the sink thread exited", video);
    SAY("  frames taken from the camera since the failure: %llu",
        (unsigned long long)(fake_camera_frame_calls() - frames_when_blocked));

    //
    //  5. the client stops the acquisition
    //
    SAY("step 5: acquire_stop() (watchdog: 5 s)");
    stopper_launch(&stopper, runtime);
    if (!stopper_wait(&stopper, 5000)) {
        print_state("5 s into acquire_stop()", video);
        SAY("DEFECT: stop did not return");
        // Diagnosis: what acquire_abort() does first gets the writer out.
        channel_accept_writes(&video->sink.in, 0);
        SAY("  (diagnosis) channel_accept_writes(&sink.in, 0) from outside: "
            "acquire_stop() %s",
            stopper_wait(&stopper, 3000) ? "now returned"
                                         : "still did not return");
        fflush(stdout);
        _exit(1);
    }
    SAY("ok: stop returned");
    print_state("after acquire_stop()", video);

    //
    //  6'. (mode `retry`) the client retries while the storage is STILL broken
    //
    //  The left-over frames of the failed run are still in the ring, so the
    //  new sink thread has something to append at once, fails at once and
    //  signals the source to stop -- possibly before acquire_start() got to
    //  video_source_start(), which then clears `source.is_stopping` again.
    //  A camera whose start() takes 200 ms makes that order certain.
    if (!strcmp(mode, "retry")) {
        SAY("step 6': retry with a storage that still fails; camera start() "
            "takes 200 ms");
        fake_storage_set_mode(FakeStorage_Fail, 0);
        fake_storage_reset_stats();
        fake_camera_reset_stats();
        fake_camera_set_start_delay_ms(200);
        fill_props(&props, 20, 0);
        if (acquire_configure(runtime, &props) != AcquireStatus_Ok ||
            acquire_start(runtime) != AcquireStatus_Ok) {
            SAY("RETRY: configure/start failed");
            return 2;
        }
        sleep_ms(300);
        print_state("300 ms after the second acquire_start()", video);
        struct timespec c0, c1;
        clock_gettime(CLOCK_PROCESS_CPUTIME_ID, &c0);
        stopper_launch(&stopper, runtime);
        const int returned = stopper_wait(&stopper, 5000);
        clock_gettime(CLOCK_PROCESS_CPUTIME_ID, &c1);
        const double cpu_s = (double)(c1.tv_sec - c0.tv_sec) +
                             1e-9 * (double)(c1.tv_nsec - c0.tv_nsec);
        if (!returned) {
            print_state("5 s into the second acquire_stop()", video);
            SAY("RETRY HANG: second acquire_stop() did not return; the process "
                "burned %.1f s of cpu during these 5 s (source thread %s)",
                cpu_s,
                cpu_s > 2.5 ? "SPINS on a refused channel_write_map()"
                            : "sleeps");
            fflush(stdout);
            _exit(4);
        }
        SAY("RETRY ok: second acquire_stop() returned");
        acquire_shutdown(runtime);
        return 0;
    }

    //
    //  6. can the acquisition be restarted afterwards?
    //
    //  With averaging only 6 frames (3 accumulators) are taken: they fit into
    //  the ring even when nobody reads it.  At the end of EVERY run the source
    //  tells filter and sink to stop at the same time, the sink may be gone
    //  before the filter has flushed, and a filter that then finds the (tiny)
    //  ring full waits forever.  That is a different matter, independent of
    //  the C09 repair (control: `demo plain-avg` with DEMO_RESTART_FRAMES=20),
    //  and must not blur this check.  For the same reason the number of
    //  accumulators that reach the storage is only reported with averaging.
HealthyRun:;
    int rc = 0;
    {
        const char* env = getenv("DEMO_RESTART_FRAMES");
        const uint64_t nframes =
          env ? strtoull(env, 0, 10) : (averaging ? 6 : 20);
        const uint64_t expected = averaging ? nframes / 2 : nframes;
        SAY("step 6: %s with a healthy storage, max_frame_count=%llu",
            plain ? "plain run" : "restart",
            (unsigned long long)nframes);
        if (!video->sink.in.is_accepting_writes) {
            SAY("RESTART FAILED: sink.in still refuses writes after stop");
            rc = 3;
        }
        fake_storage_set_mode(FakeStorage_AlwaysOk, 0);
        fake_storage_reset_stats();
        fake_camera_reset_stats();
        fill_props(&props, nframes, averaging);
        if (acquire_configure(runtime, &props) != AcquireStatus_Ok ||
            acquire_start(runtime) != AcquireStatus_Ok) {
            SAY("RESTART FAILED: configure/start");
            return 3;
        }
        stopper_launch(&stopper, runtime);
        if (!stopper_wait(&stopper, 5000)) {
            print_state("5 s into the second acquire_stop()", video);
            SAY("RESTART FAILED: second acquire_stop() did not return");
            fflush(stdout);
            _exit(3);
        }
        const uint64_t got = fake_storage_appended_frames();
        SAY("  second run: camera delivered %llu frames; storage received "
            "%llu frames (%llu new expected; first frame_id seen: %llu)",
            (unsigned long long)fake_camera_frame_calls(),
            (unsigned long long)got,
            (unsigned long long)expected,
            (unsigned long long)fake_storage_first_frame_id());
        if (got > expected && !plain)
            SAY("  note: %llu left-over frames of the failed run were still in "
                "the ring and went to the storage first",
                (unsigned long long)(got - expected));
        if (fake_camera_frame_calls() != nframes ||
            (!averaging && got < expected)) {
            SAY("RESTART FAILED: frames are missing");
            rc = 3;
        }
        if (acquire_get_state(runtime) != DeviceState_Armed) {
            SAY("RESTART FAILED: runtime is not Armed after the second stop");
            rc = 3;
        }
        if (!rc)
            SAY("  restart ok");
    }

    acquire_shutdown(runtime);
    return rc;
}
