// Fake devices for the C09 replay: a camera that always has a frame ready and a
// storage device whose append() can be made to block and then fail.  They are
// plugged in through the real HAL (`struct Camera`, `struct Storage`,
// `struct Driver`) and a minimal stand-in for the device manager (the real one
// loads driver shared libraries, which this demo does not want).
#ifndef TRIAGE_C09_FAKES_H
#define TRIAGE_C09_FAKES_H

#include "device/props/device.h"
#include "device/props/components.h"
#include <stddef.h>
#include <stdint.h>

enum
{
    FAKE_DEVICE_ID_CAMERA = 0,
    FAKE_DEVICE_ID_STORAGE = 1,
};

// Frame geometry produced by the fake camera: u8, 32x32.
#define FAKE_WIDTH 32
#define FAKE_HEIGHT 32

enum fake_storage_mode
{
    /// append() always consumes everything and answers Running.
    FakeStorage_AlwaysOk,
    /// The first `n_ok_appends` calls succeed, the next one blocks until
    /// fake_storage_open_gate() and then FAILS (answers
    /// DeviceState_AwaitingConfiguration).
    FakeStorage_BlockThenFail,
    /// Every append() fails right away (the device is still broken).
    FakeStorage_Fail,
};

void
fake_storage_set_mode(enum fake_storage_mode mode, int n_ok_appends);

/// 1 once the sink thread sits inside the blocking append().
int
fake_storage_is_in_gate(void);

/// Lets the blocked append() return (with a failure).
void
fake_storage_open_gate(void);

/// Resets the append statistics.
void
fake_storage_reset_stats(void);
uint64_t
fake_storage_appended_frames(void);
uint64_t
fake_storage_append_calls(void);
/// frame_id of the first frame handed to append() since the last reset, or
/// UINT64_MAX.
uint64_t
fake_storage_first_frame_id(void);

/// Calls of get_shape()/get_frame() since the last reset.  The source thread
/// does `get_shape; channel_write_map; get_frame; channel_write_unmap` per
/// iteration, so `shape_calls == frame_calls + 1` means that it is between the
/// two, i.e. in (or on the way into / out of) channel_write_map.
void
fake_camera_reset_stats(void);
/// Makes the camera's start() take this long (real cameras need a while).
void
fake_camera_set_start_delay_ms(int ms);
uint64_t
fake_camera_shape_calls(void);
uint64_t
fake_camera_frame_calls(void);

#endif
