// This translation unit IS the project's channel.c (it is not compiled a second
// time), plus one observer that reaches the static `next_write()`:
// would a channel_write_map(self, nbytes) issued now have to wait?
#include "runtime/channel.c"

/// Evaluates the writer's wait predicate of channel_write_map() under the
/// channel lock, without changing anything.
/// @returns 1 if a write of `nbytes` would go through (or be refused) right
///          away, 0 if the writer would have to sleep on
///          `notify_space_available`.
int
triage_channel_write_would_proceed(struct channel* self, size_t nbytes)
{
    int out;
    size_t beg = 0;
    uint8_t should_wrap = 0;
    lock_acquire(&self->lock);
    if (nbytes >= self->capacity || !self->holds.n) {
        out = 1;
    } else {
        // exactly the loop condition of channel_write_map()
        out = !(self->is_accepting_writes &&
                !next_write(self, nbytes, &beg, &should_wrap));
    }
    lock_release(&self->lock);
    return out;
}
