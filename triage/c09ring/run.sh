#!/bin/sh
# C09 replay: storage failure while the source is blocked on the full ring.
#
#   usage: TRIAGE/run.sh <worktree> [direct|avg|retry|plain-direct|plain-avg]
#
# Compiles the demo (demo.c, fakes.c, channel_probe.c) directly together with
# the sources of <worktree> into a temporary directory, runs it, removes the
# directory and exits with the demo's exit code:
#   0  "ok: stop returned"
#   1  "DEFECT: stop did not return"
#   2  the situation could not be set up      3  restart after the stop failed
set -eu

WT=$(cd "${1:?usage: run.sh <worktree> [direct|avg|retry|plain-direct|plain-avg]}" && pwd)
MODE=${2:-direct}
HERE=$(cd "$(dirname "$0")" && pwd)

CORE=$WT/acquire-core-libs/src
RT=$WT/acquire-video-runtime/src
HAL=$CORE/acquire-device-hal
PROPS=$CORE/acquire-device-properties
PLATFORM=$CORE/acquire-core-platform/linux

TMP=$(mktemp -d "${TMPDIR:-/tmp}/triage-c09.XXXXXX")
trap 'rm -rf "$TMP"' EXIT INT TERM

# demo.c            #includes $RT/acquire.c         (ring capacity replaced)
# channel_probe.c   #includes $RT/runtime/channel.c (adds one observer)
# device.manager.cpp / loader.c (driver shared libraries) are replaced by the
# stand-in in fakes.c; everything else is compiled as it is.
${CC:-cc} -std=gnu11 -O1 -g -pthread -DNO_UNIT_TESTS -w \
    -I"$HERE" -I"$RT" -I"$RT/runtime" \
    -I"$CORE/acquire-core-logger" -I"$PLATFORM" \
    -I"$PROPS" -I"$CORE/acquire-device-kit" -I"$HAL" -I"$HAL/device/hal" \
    -o "$TMP/demo" \
    "$HERE/demo.c" "$HERE/fakes.c" "$HERE/channel_probe.c" \
    "$RT/runtime/source.c" "$RT/runtime/sink.c" "$RT/runtime/filter.c" \
    "$RT/runtime/throttler.c" "$RT/runtime/vfslice.c" \
    "$RT/runtime/frame_iterator.c" \
    "$HAL/device/hal/camera.c" "$HAL/device/hal/storage.c" \
    "$HAL/device/hal/driver.c" \
    "$CORE/acquire-core-logger/logger.c" "$PLATFORM/platform.c" \
    "$PROPS/device/props/device.c" "$PROPS/device/props/components.c" \
    "$PROPS/device/props/storage.c" \
    -ldl -lm

set +e
"$TMP/demo" "$MODE"
rc=$?
set -e
echo "demo rc=$rc"
exit $rc
