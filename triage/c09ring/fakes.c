// Fake camera / storage / driver / device manager for the C09 replay.
// See fakes.h.  Everything above the `struct Camera` / `struct Storage` /
// `struct Driver` function tables is the project's real code.
#include "fakes.h"

#include "device/kit/camera.h"
#include "device/kit/storage.h"
#include "device/kit/driver.h"
#include "device/hal/device.manager.h"

#include <pthread.h>
#include <stdatomic.h>
#include <stdio.h>
#include <string.h>
#include <time.h>

#define containerof(P, T, F) ((T*)(((char*)(P)) - offsetof(T, F)))

//
//      CAMERA
//

static struct fake_camera
{
    struct Camera camera;
    struct CameraProperties props;
    uint64_t hardware_frame_id;
    atomic_ullong shape_calls, frame_calls;
    int start_delay_ms;
} g_camera;

static void
fill_shape(struct ImageShape* shape)
{
    *shape = (struct ImageShape){
        .dims = { .channels = 1,
                  .width = FAKE_WIDTH,
                  .height = FAKE_HEIGHT,
                  .planes = 1 },
        .strides = { .channels = 1,
                     .width = 1,
                     .height = FAKE_WIDTH,
                     .planes = FAKE_WIDTH * FAKE_HEIGHT },
        .type = SampleType_u8,
    };
}

static enum DeviceStatusCode
cam_set(struct Camera* self_, struct CameraProperties* settings)
{
    struct fake_camera* self = containerof(self_, struct fake_camera, camera);
    self->props = *settings;
    return Device_Ok;
}

static enum DeviceStatusCode
cam_get(const struct Camera* self_, struct CameraProperties* settings)
{
    const struct fake_camera* self =
      containerof(self_, const struct fake_camera, camera);
    *settings = self->props;
    settings->shape.x = FAKE_WIDTH;
    settings->shape.y = FAKE_HEIGHT;
    settings->pixel_type = SampleType_u8;
    return Device_Ok;
}

static enum DeviceStatusCode
cam_get_meta(const struct Camera* self_, struct CameraPropertyMetadata* meta)
{
    (void)self_;
    memset(meta, 0, sizeof(*meta));
    return Device_Ok;
}

static enum DeviceStatusCode
cam_get_shape(const struct Camera* self_, struct ImageShape* shape)
{
    struct fake_camera* self =
      containerof((struct Camera*)self_, struct fake_camera, camera);
    fill_shape(shape);
    atomic_fetch_add(&self->shape_calls, 1);
    return Device_Ok;
}

static enum DeviceStatusCode
cam_start(struct Camera* self_)
{
    struct fake_camera* self = containerof(self_, struct fake_camera, camera);
    self->hardware_frame_id = 0;
    if (self->start_delay_ms > 0) {
        struct timespec t = { .tv_sec = self->start_delay_ms / 1000,
                              .tv_nsec = (long)(self->start_delay_ms % 1000) *
                                         1000000L };
        nanosleep(&t, 0);
    }
    return Device_Ok;
}

static enum DeviceStatusCode
cam_stop(struct Camera* self_)
{
    (void)self_;
    return Device_Ok;
}

static enum DeviceStatusCode
cam_execute_trigger(struct Camera* self_)
{
    (void)self_;
    return Device_Ok;
}

static enum DeviceStatusCode
cam_get_frame(struct Camera* self_,
              void* im,
              size_t* nbytes,
              struct ImageInfo* info)
{
    struct fake_camera* self = containerof(self_, struct fake_camera, camera);
    const size_t sz = FAKE_WIDTH * FAKE_HEIGHT;
    if (*nbytes < sz)
        return Device_Err;
    memset(im, (int)(self->hardware_frame_id & 0xff), sz);
    *nbytes = sz;
    fill_shape(&info->shape);
    info->hardware_frame_id = self->hardware_frame_id++;
    info->hardware_timestamp = info->hardware_frame_id;
    atomic_fetch_add(&self->frame_calls, 1);
    return Device_Ok;
}

void
fake_camera_set_start_delay_ms(int ms)
{
    g_camera.start_delay_ms = ms;
}

void
fake_camera_reset_stats(void)
{
    atomic_store(&g_camera.shape_calls, 0);
    atomic_store(&g_camera.frame_calls, 0);
}

uint64_t
fake_camera_shape_calls(void)
{
    return atomic_load(&g_camera.shape_calls);
}

uint64_t
fake_camera_frame_calls(void)
{
    return atomic_load(&g_camera.frame_calls);
}

//
//      STORAGE
//

static struct fake_storage
{
    struct Storage storage;

    pthread_mutex_t lock;
    pthread_cond_t cond;
    enum fake_storage_mode mode;
    int n_ok_appends;
    int in_gate;
    int gate_open;

    uint64_t append_calls;
    uint64_t appended_frames;
    uint64_t first_frame_id;
} g_storage = {
    .lock = PTHREAD_MUTEX_INITIALIZER,
    .cond = PTHREAD_COND_INITIALIZER,
    .first_frame_id = UINT64_MAX,
};

static enum DeviceState
sto_set(struct Storage* self_, const struct StorageProperties* settings)
{
    (void)self_;
    (void)settings;
    return DeviceState_Armed;
}

static void
sto_get(const struct Storage* self_, struct StorageProperties* settings)
{
    (void)self_;
    (void)settings;
}

static void
sto_get_meta(const struct Storage* self_, struct StoragePropertyMetadata* meta)
{
    (void)self_;
    memset(meta, 0, sizeof(*meta));
}

static enum DeviceState
sto_start(struct Storage* self_)
{
    (void)self_;
    return DeviceState_Running;
}

static enum DeviceState
sto_stop(struct Storage* self_)
{
    (void)self_;
    return DeviceState_Armed;
}

static void
sto_destroy(struct Storage* self_)
{
    (void)self_;
}

static void
sto_reserve_image_shape(struct Storage* self_, const struct ImageShape* shape)
{
    (void)self_;
    (void)shape;
}

static enum DeviceState
sto_append(struct Storage* self_, const struct VideoFrame* frames, size_t* nbytes)
{
    struct fake_storage* self =
      containerof(self_, struct fake_storage, storage);
    enum DeviceState answer = DeviceState_Running;

    pthread_mutex_lock(&self->lock);
    const uint64_t call = ++self->append_calls;
    if (self->mode == FakeStorage_Fail) {
        *nbytes = 0;
        answer = DeviceState_AwaitingConfiguration;
    } else if (self->mode == FakeStorage_BlockThenFail &&
        call > (uint64_t)self->n_ok_appends) {
        // The device stalls (think: a full disk, a dead network share) ...
        self->in_gate = 1;
        pthread_cond_broadcast(&self->cond);
        while (!self->gate_open)
            pthread_cond_wait(&self->cond, &self->lock);
        self->in_gate = 0;
        // ... and then reports the failure.  Nothing was consumed.
        *nbytes = 0;
        answer = DeviceState_AwaitingConfiguration;
    } else {
        const uint8_t* cur = (const uint8_t*)frames;
        const uint8_t* const end = cur + *nbytes;
        while (cur < end) {
            const struct VideoFrame* f = (const struct VideoFrame*)cur;
            if (self->first_frame_id == UINT64_MAX)
                self->first_frame_id = f->frame_id;
            ++self->appended_frames;
            if (!f->bytes_of_frame)
                break;
            cur += f->bytes_of_frame;
        }
    }
    pthread_mutex_unlock(&self->lock);
    return answer;
}

void
fake_storage_set_mode(enum fake_storage_mode mode, int n_ok_appends)
{
    pthread_mutex_lock(&g_storage.lock);
    g_storage.mode = mode;
    g_storage.n_ok_appends = n_ok_appends;
    g_storage.gate_open = 0;
    g_storage.in_gate = 0;
    pthread_mutex_unlock(&g_storage.lock);
}

int
fake_storage_is_in_gate(void)
{
    pthread_mutex_lock(&g_storage.lock);
    const int v = g_storage.in_gate;
    pthread_mutex_unlock(&g_storage.lock);
    return v;
}

void
fake_storage_open_gate(void)
{
    pthread_mutex_lock(&g_storage.lock);
    g_storage.gate_open = 1;
    pthread_cond_broadcast(&g_storage.cond);
    pthread_mutex_unlock(&g_storage.lock);
}

void
fake_storage_reset_stats(void)
{
    pthread_mutex_lock(&g_storage.lock);
    g_storage.append_calls = 0;
    g_storage.appended_frames = 0;
    g_storage.first_frame_id = UINT64_MAX;
    pthread_mutex_unlock(&g_storage.lock);
}

uint64_t
fake_storage_appended_frames(void)
{
    pthread_mutex_lock(&g_storage.lock);
    const uint64_t v = g_storage.appended_frames;
    pthread_mutex_unlock(&g_storage.lock);
    return v;
}

uint64_t
fake_storage_append_calls(void)
{
    pthread_mutex_lock(&g_storage.lock);
    const uint64_t v = g_storage.append_calls;
    pthread_mutex_unlock(&g_storage.lock);
    return v;
}

uint64_t
fake_storage_first_frame_id(void)
{
    pthread_mutex_lock(&g_storage.lock);
    const uint64_t v = g_storage.first_frame_id;
    pthread_mutex_unlock(&g_storage.lock);
    return v;
}

//
//      DRIVER
//

static uint32_t
drv_device_count(struct Driver* self)
{
    (void)self;
    return 2;
}

static enum DeviceStatusCode
drv_describe(const struct Driver* self,
             struct DeviceIdentifier* identifier,
             uint64_t i)
{
    (void)self;
    switch (i) {
        case FAKE_DEVICE_ID_CAMERA:
            *identifier = (struct DeviceIdentifier){
                .device_id = FAKE_DEVICE_ID_CAMERA,
                .kind = DeviceKind_Camera,
                .name = "fake camera",
            };
            return Device_Ok;
        case FAKE_DEVICE_ID_STORAGE:
            *identifier = (struct DeviceIdentifier){
                .device_id = FAKE_DEVICE_ID_STORAGE,
                .kind = DeviceKind_Storage,
                .name = "fake storage",
            };
            return Device_Ok;
        default:
            return Device_Err;
    }
}

static enum DeviceStatusCode
drv_open(struct Driver* self, uint64_t device_id, struct Device** out)
{
    (void)self;
    switch (device_id) {
        case FAKE_DEVICE_ID_CAMERA:
            g_camera.camera = (struct Camera){
                .state = DeviceState_AwaitingConfiguration,
                .set = cam_set,
                .get = cam_get,
                .get_meta = cam_get_meta,
                .get_shape = cam_get_shape,
                .start = cam_start,
                .stop = cam_stop,
                .execute_trigger = cam_execute_trigger,
                .get_frame = cam_get_frame,
            };
            *out = &g_camera.camera.device;
            return Device_Ok;
        case FAKE_DEVICE_ID_STORAGE:
            g_storage.storage = (struct Storage){
                .state = DeviceState_AwaitingConfiguration,
                .set = sto_set,
                .get = sto_get,
                .get_meta = sto_get_meta,
                .start = sto_start,
                .append = sto_append,
                .stop = sto_stop,
                .destroy = sto_destroy,
                .reserve_image_shape = sto_reserve_image_shape,
            };
            *out = &g_storage.storage.device;
            return Device_Ok;
        default:
            return Device_Err;
    }
}

static enum DeviceStatusCode
drv_close(struct Driver* self, struct Device* in)
{
    (void)self;
    (void)in;
    return Device_Ok;
}

static enum DeviceStatusCode
drv_shutdown(struct Driver* self)
{
    (void)self;
    return Device_Ok;
}

static struct Driver g_driver = {
    .device_count = drv_device_count,
    .describe = drv_describe,
    .open = drv_open,
    .close = drv_close,
    .shutdown = drv_shutdown,
};

//
//      DEVICE MANAGER (stand-in for device/hal/device.manager.cpp)
//

enum DeviceStatusCode
device_manager_init(struct DeviceManager* self,
                    void (*reporter)(int is_error,
                                     const char* file,
                                     int line,
                                     const char* function,
                                     const char* msg))
{
    (void)reporter;
    self->impl = &g_driver;
    return Device_Ok;
}

enum DeviceStatusCode
device_manager_destroy(struct DeviceManager* self)
{
    self->impl = 0;
    return Device_Ok;
}

uint32_t
device_manager_count(const struct DeviceManager* self)
{
    (void)self;
    return 2;
}

enum DeviceStatusCode
device_manager_get(struct DeviceIdentifier* out,
                   const struct DeviceManager* self,
                   uint32_t index)
{
    (void)self;
    enum DeviceStatusCode ecode = drv_describe(&g_driver, out, index);
    out->driver_id = 0;
    return ecode;
}

enum DeviceStatusCode
device_manager_select_first(const struct DeviceManager* self,
                            enum DeviceKind kind,
                            struct DeviceIdentifier* out)
{
    for (uint32_t i = 0; i < 2; ++i) {
        struct DeviceIdentifier id;
        if (device_manager_get(&id, self, i) == Device_Ok && id.kind == kind) {
            *out = id;
            return Device_Ok;
        }
    }
    return Device_Err;
}

enum DeviceStatusCode
device_manager_select(const struct DeviceManager* self,
                      enum DeviceKind kind,
                      const char* name,
                      size_t bytes_of_name,
                      struct DeviceIdentifier* out)
{
    (void)name;
    (void)bytes_of_name;
    return device_manager_select_first(self, kind, out);
}

enum DeviceStatusCode
device_manager_select_default(const struct DeviceManager* self,
                              enum DeviceKind kind,
                              struct DeviceIdentifier* out)
{
    return device_manager_select_first(self, kind, out);
}

struct Driver*
device_manager_get_driver(const struct DeviceManager* self,
                          const struct DeviceIdentifier* identifier)
{
    (void)identifier;
    return (struct Driver*)self->impl;
}
