#!/bin/bash
# Triage replays: concrete demonstrations, against the real sources in /repo,
# of the defects the static rules report (DESIGN.md section 5). NOT a check:
# nothing in MANIFEST.json calls this. Builds in a scratch dir and removes it.
#   usage: triage/run.sh [name ...]   names: chan_empty lost simbin pcopy raw tiff sbs mon filt close
set -u
R=${REPO:-/repo}; C=$R/acquire-core-libs/src; D=$R/acquire-driver-common/src; V=$R/acquire-video-runtime/src
H=$(cd "$(dirname "$0")" && pwd); W=$(mktemp -d "${TMPDIR:-/var/tmp}/acq-triage.XXXXXX"); trap 'rm -rf "$W"' EXIT; cd "$W"
INC="-I$V -I$V/runtime -I$D -I$D/simcams -I$D/simcams/3rdParty/pcg-c-basic-0.9 -I$C/acquire-core-platform/linux -I$C/acquire-core-logger -I$C/acquire-device-kit -I$C/acquire-device-properties -I$C/acquire-device-hal"
CF="-g -w -DNO_UNIT_TESTS $INC"
PLAT="$C/acquire-core-platform/linux/platform.c $C/acquire-core-logger/logger.c"
PROPS="$C/acquire-device-properties/device/props/storage.c $C/acquire-device-properties/device/props/components.c $C/acquire-device-properties/device/props/device.c"
cc_objs(){ for f in "$@"; do clang $CF ${SAN:-} -c "$f" || exit 2; done; }
names=${*:-chan_empty lost simbin pcopy raw tiff sbs mon filt close}
for n in $names; do rm -f ./*.o; echo "=== $n"; SAN=
 case $n in
 chan_empty) clang $CF $H/chan_empty.c $V/runtime/channel.c $PLAT -o t -lpthread -ldl && ./t ;;
 lateregister) clang $CF $H/lateregister.c $V/runtime/sink.c $V/runtime/channel.c $V/runtime/throttler.c $V/runtime/vfslice.c $V/runtime/frame_iterator.c $H/stub.c $C/acquire-device-hal/device/hal/storage.c $C/acquire-device-hal/device/hal/driver.c $PROPS $PLAT -o t -lpthread -ldl -lm && timeout 30 ./t 2>&1 | tail -4 ;;
 nineth) clang $CF $H/nineth.c $V/runtime/channel.c $PLAT -o t -lpthread -ldl && timeout 10 ./t 2>&1 | tail -4 ;;
 holdmove) clang $CF $H/holdmove.c $V/runtime/channel.c $PLAT -o t -lpthread -ldl && ./t 2>&1 | tail -2 ;;
 lost) clang $CF -c -Dcondition_variable_wait=hooked_wait $V/runtime/channel.c -o ch.o && clang $CF $H/lost.c $H/realwait.c ch.o $PLAT -o t -lpthread -ldl && ./t ;;
 simbin) SAN=-fsanitize=address; cc_objs $H/simbin.c $D/simcams/simulated.camera.c $D/simcams/3rdParty/pcg-c-basic-0.9/pcg_basic.c $PLAT $C/acquire-device-properties/device/props/components.c; clang++ -g -w -std=gnu++20 $SAN $INC -c $D/simcams/popcount.cpp $D/simcams/imfill.pattern.cpp && clang++ $SAN ./*.o -o t -lpthread -ldl -lm && ./t 2>&1 | head -12 ;;
 simalign) SAN="-mavx2 -O2"; cc_objs $H/simalign.c $D/simcams/simulated.camera.c $D/simcams/3rdParty/pcg-c-basic-0.9/pcg_basic.c $PLAT $C/acquire-device-properties/device/props/components.c; clang++ -g -w -std=gnu++20 $INC -c $D/simcams/popcount.cpp $D/simcams/imfill.pattern.cpp && clang++ ./*.o -o t -lpthread -ldl -lm && ./t 2>&1 | tail -3 ;;
 noframe) cc_objs $H/noframe_t.c $D/simcams/simulated.camera.c $D/simcams/3rdParty/pcg-c-basic-0.9/pcg_basic.c $PLAT $C/acquire-device-properties/device/props/components.c; clang++ -g -w -std=gnu++20 $INC -c $D/simcams/popcount.cpp $D/simcams/imfill.pattern.cpp && clang++ ./*.o -o t -lpthread -ldl -lm && ./t 2>&1 | tail -3 ;;
 trig) cc_objs $H/trig_t.c $D/simcams/simulated.camera.c $D/simcams/3rdParty/pcg-c-basic-0.9/pcg_basic.c $PLAT $C/acquire-device-properties/device/props/components.c; clang++ -g -w -std=gnu++20 $INC -c $D/simcams/popcount.cpp $D/simcams/imfill.pattern.cpp && clang++ ./*.o -o t -lpthread -ldl -lm && ./t 2>&1 | tail -3 ;;
 dimleak) clang $CF $H/dimleak_t.c $C/acquire-core-logger/logger.c -o t && ./t 2>&1 | tail -3 ;;
 pcopy) clang $CF -fsanitize=address $H/pcopy.c $C/acquire-device-properties/device/props/storage.c $C/acquire-core-logger/logger.c -o t && ./t 2>&1 | head -8 ;;
 rawtail) clang $CF $H/rawtail_t.c $D/storage/raw.c $C/acquire-device-properties/device/props/storage.c $PLAT -o t -lpthread -ldl && ./t </dev/null 2>&1 | tail -3 ;;
 raw) clang $CF $H/raw_t.c $D/storage/raw.c $C/acquire-device-properties/device/props/storage.c $PLAT -o t -lpthread -ldl && ./t </dev/null 2>&1 | tail -4 ;;
 tiffres) cc_objs $PROPS $PLAT; clang++ -g -w -std=gnu++20 $INC $H/tiffres_t.cpp $D/storage/tiff.cpp ./*.o -o t -lpthread -ldl && ./t 2>&1 | tail -2 ;;
 tiffmeta) cc_objs $PROPS $PLAT; clang++ -g -w -std=gnu++20 $INC $H/tiffmeta_t.cpp $D/storage/tiff.cpp ./*.o -o t -lpthread -ldl && ./t 2>&1 | tail -2 ;;
 tiff|sbs) cc_objs $PROPS $PLAT; clang++ -g -w -std=gnu++20 $INC $H/tiff_t.cpp $D/storage/tiff.cpp $D/storage/side-by-side-tiff.cpp ./*.o -o t -lpthread -ldl && { if [ $n = sbs ]; then ./t sbs 2>&1 | grep -v '^$' | tail -5; else (./t 2>&1 | grep -v '^$' | cut -c1-150 | tail -4; echo "exit=${PIPESTATUS[0]} (139 = stack overflow)"); fi; } ;;
 latejoin) cp "$(find $R/_build -name libacquire-driver-common.so | head -1)" . 2>/dev/null || { echo "needs a built libacquire-driver-common.so under $R/_build"; continue; }
      cc_objs $H/latejoin_t.c $V/acquire.c $V/runtime/channel.c $V/runtime/throttler.c $V/runtime/source.c $V/runtime/filter.c $V/runtime/sink.c $V/runtime/vfslice.c $V/runtime/frame_iterator.c $PLAT $PROPS $C/acquire-device-hal/device/hal/camera.c $C/acquire-device-hal/device/hal/driver.c $C/acquire-device-hal/device/hal/loader.c $C/acquire-device-hal/device/hal/storage.c; clang++ -g -w -std=gnu++20 $INC -c $C/acquire-device-hal/device/hal/device.manager.cpp && clang++ ./*.o -o t -lpthread -ldl -lm && ./t 2>&1 | grep -v 'Failed to load\|^$' | tail -14 ;;
 mon) cp "$(find $R/_build -name libacquire-driver-common.so | head -1)" . 2>/dev/null || { echo "needs a built libacquire-driver-common.so under $R/_build"; continue; }
      cc_objs $H/mon_t.c $V/acquire.c $V/runtime/channel.c $V/runtime/throttler.c $V/runtime/source.c $V/runtime/filter.c $V/runtime/sink.c $V/runtime/vfslice.c $V/runtime/frame_iterator.c $PLAT $PROPS $C/acquire-device-hal/device/hal/camera.c $C/acquire-device-hal/device/hal/driver.c $C/acquire-device-hal/device/hal/loader.c $C/acquire-device-hal/device/hal/storage.c; clang++ -g -w -std=gnu++20 $INC -c $C/acquire-device-hal/device/hal/device.manager.cpp && clang++ ./*.o -o t -lpthread -ldl -lm && ./t 2>&1 | grep -v 'Failed to load\|^$' | tail -14 ;;
 filt) clang $CF $H/filt_t.c $V/runtime/filter.c $V/runtime/channel.c $V/runtime/throttler.c $V/runtime/frame_iterator.c $V/runtime/vfslice.c $PLAT $C/acquire-device-properties/device/props/components.c -o t -lpthread -ldl -lm && timeout 30 ./t 2>&1 | tail -3 ;;
 close) clang $CF -fsanitize=address $H/close_t.c $H/stub.c $C/acquire-device-hal/device/hal/storage.c $C/acquire-device-hal/device/hal/driver.c $D/storage/trash.c $C/acquire-device-properties/device/props/storage.c $C/acquire-device-properties/device/props/device.c $C/acquire-core-logger/logger.c -o t && ./t 2>&1 | head -6 ;;
 devnull) clang $CF $H/devnull_t.c $PLAT -o t -lpthread -ldl && ./t 2>&1 | tail -2 ;;
 errnoclobber) clang $CF $H/errnoclobber_t.c $PLAT -o t -lpthread -ldl && ./t 2>&1 | tail -3 ;;
 getset) clang $CF $H/getset_t.c $D/storage/raw.c $C/acquire-device-properties/device/props/storage.c $PLAT -o t -lpthread -ldl && ./t </dev/null 2>&1 | tail -5; clang $CF -fsanitize=address $H/getset_t.c $D/storage/raw.c $C/acquire-device-properties/device/props/storage.c $PLAT -o t -lpthread -ldl && ASAN_OPTIONS=detect_leaks=0 ./t dims </dev/null 2>&1 | grep -E "ERROR|DEFECT|ok$|#[0-4] " | head -8 ;;
 badtype) SAN=-fsanitize=address; cc_objs $H/badtype_t.c $D/simcams/simulated.camera.c $D/simcams/3rdParty/pcg-c-basic-0.9/pcg_basic.c $PLAT $C/acquire-device-properties/device/props/components.c; clang++ -g -w -std=gnu++20 $SAN $INC -c $D/simcams/popcount.cpp $D/simcams/imfill.pattern.cpp && clang++ $SAN ./*.o -o t -lpthread -ldl -lm && ./t 2>&1 | grep -E "ERROR|returned|in effect|ok:|#[0-3] " | head -10 ;;
 reset) clang $CF $H/reset_t.c $H/stub.c $C/acquire-device-hal/device/hal/storage.c $C/acquire-device-hal/device/hal/driver.c $D/storage/raw.c $PROPS $PLAT -o t -lpthread -ldl && ./t 2>&1 | tail -3 ;;
 *) echo "unknown $n";;
 esac
done
