// Triage (C15): y_resolution() emits tag 282 (XResolution) again when the pixel scale is below 1 um
// (den == 0), so every directory carries tag 282 twice and no tag 283: not a valid (Big)TIFF directory.
#include "device/kit/storage.h"
#include "device/props/storage.h"
#include <cstdio>
#include <cstdlib>
#include <cstring>
#include <cstdint>
#include <unistd.h>
extern "C" struct Storage* tiff_init();
#include "logger.h"
static void rep(int e,const char*f,int l,const char*fn,const char*m){ if(e) printf("LOG[%s:%d] %s\n",fn,l,m);}
int main(){ setvbuf(stdout,0,_IONBF,0); logger_set_reporter(rep);
  size_t n=sizeof(VideoFrame)+64; VideoFrame* f=(VideoFrame*)calloc(1,n); f->bytes_of_frame=n; f->shape.dims={1,8,8,1}; f->shape.strides={1,1,8,64}; f->shape.type=SampleType_u8;
  StorageProperties p{}; PixelScale ps{0.5,0.5};   // also the zero-initialised default {0,0}
  Storage* s=tiff_init();
  storage_properties_init(&p,0,"res.tif",8,0,0,ps,0);
  s->state=s->set(s,&p); s->state=s->start(s); { size_t nb=n; s->state=s->append(s,f,&nb);} s->state=s->stop(s);
  FILE* fp=fopen("res.tif","rb"); uint64_t first=0; fseek(fp,8,SEEK_SET); fread(&first,8,1,fp);
  uint64_t ntags=0; fseek(fp,(long)first,SEEK_SET); fread(&ntags,8,1,fp);
  int dup=0, unsorted=0, has283=0; unsigned prev=0;
  for(uint64_t i=0;i<ntags;++i){ uint16_t tag=0; uint8_t rest[18]; fread(&tag,2,1,fp); fread(rest,18,1,fp); if(tag==prev) ++dup; if(tag<prev) ++unsorted; if(tag==283) has283=1; prev=tag; }
  fclose(fp); unlink("res.tif");
  printf("%llu tags, duplicates=%d, out of order=%d, YResolution present=%d\n",(unsigned long long)ntags,dup,unsorted,has283);
  if(dup||unsorted||!has283){ printf("DEFECT: the directory is not a valid TIFF directory (tag 282 twice, 283 missing) for a pixel scale below 1 um\n"); return 1; }
  printf("ok\n"); return 0; }
