// Triage (C18 / C04): simcam_get_frame's Shutdown path returns Device_Ok without a frame and without
// saying so (*nbytes and *info untouched): a caller waiting for a frame when the camera is stopped
// believes it received one - the same hardware id twice, a frame the camera never delivered.
#include "device/kit/camera.h"
#include "simulated.camera.h"
#include <pthread.h>
#include <stdio.h>
#include <stdlib.h>
#include <string.h>
#include <unistd.h>
static struct Camera* cam; static volatile int done = 0; static size_t n_out; static int rc_out; static struct ImageInfo info;
static void* getter(void* a){ size_t n = 64*48; void* buf = malloc(n); info.hardware_frame_id = 777;  /* what the previous call left */
  rc_out = cam->get_frame(cam, buf, &n, &info); n_out = n; done = 1; return 0; }
int main(){
  cam = simcam_make_camera(BasicDevice_Camera_Random);
  struct CameraProperties p = {0}; cam->get(cam, &p);
  p.shape.x = 64; p.shape.y = 48; p.exposure_time_us = 1000; p.input_triggers.frame_start.enable = 1;   // no trigger: no frame
  if (cam->set(cam, &p) != Device_Ok) { puts("set failed"); return 2; }
  cam->start(cam);
  pthread_t t; pthread_create(&t, 0, getter, 0);
  usleep(200000);                 // the getter now waits for a frame that never comes
  cam->stop(cam);                 // stop releases it
  pthread_join(t, 0);
  printf("get_frame returned %s, nbytes=%zu, hardware_frame_id=%llu\n", rc_out == Device_Ok ? "Device_Ok" : "Device_Err", n_out, (unsigned long long)info.hardware_frame_id);
  if (rc_out == Device_Ok && n_out != 0) { puts("DEFECT: Ok with a non-zero byte count although no frame was generated: the caller commits a frame the camera never delivered"); return 1; }
  puts("ok: the call reports that there is no frame"); return 0; }
