#include "device/kit/storage.h"
#include "device/props/storage.h"
#include <stdio.h>
#include <stdlib.h>
#include <string.h>
#include <unistd.h>
#include <fcntl.h>
#include <sys/stat.h>
struct Storage* raw_init();
static void frame(struct VideoFrame* f, size_t payload){ memset(f,0,sizeof(*f)+payload); f->bytes_of_frame=sizeof(*f)+payload; }
int main(){
  // (6) open + set + destroy without start: which descriptor gets closed?
  struct Storage* s = raw_init();
  printf("fd0 valid before: %d\n", fcntl(0,F_GETFD)!=-1);
  s->destroy(s);
  printf("fd0 valid after destroy of never-started raw device: %d\n", fcntl(0,F_GETFD)!=-1);
  // (5) two acquisitions on one device to two paths
  s = raw_init(); struct StorageProperties p={0}; struct PixelScale ps={1,1};
  size_t n=sizeof(struct VideoFrame)+64; struct VideoFrame* f=malloc(n); frame(f,64);
  storage_properties_init(&p,0,"a.raw",6,0,0,ps,0); s->set(s,&p); s->start(s); size_t nb=n; s->append(s,f,&nb); s->stop(s);
  storage_properties_set_uri(&p,"b.raw",6); s->set(s,&p); s->start(s); nb=n; s->append(s,f,&nb); s->stop(s);
  struct stat st; stat("a.raw",&st); printf("a.raw size %ld (appended %zu)\n",(long)st.st_size,n);
  stat("b.raw",&st); printf("b.raw size %ld (appended %zu)\n",(long)st.st_size,n);
  return 0; }
