// Finding 10 (C17): binning 2 -> streamer renders 4x the allocated buffer. Build with ASan.
#include "device/kit/camera.h"
#include "simulated.camera.h"
#include <stdio.h>
#include <stdlib.h>
int main(){
  struct Camera* cam = simcam_make_camera(BasicDevice_Camera_Random);
  struct CameraProperties p={0}; cam->get(cam,&p);
  p.binning=2; p.shape.x=64; p.shape.y=48; p.exposure_time_us=1000;
  printf("set=%d\n", cam->set(cam,&p));
  struct ImageShape sh; cam->get_shape(cam,&sh); printf("shape %ux%u\n", sh.dims.width, sh.dims.height);
  cam->start(cam);
  size_t n=sh.dims.width*sh.dims.height; void* buf=malloc(n); struct ImageInfo info;
  cam->get_frame(cam,buf,&n,&info);
  cam->stop(cam); printf("done (no overflow)\n"); return 0; }
