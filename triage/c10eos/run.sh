#!/bin/bash
# Replay of the end-of-stream race "sink flushes before the filter's last emit"
# against the real sources of a worktree.
#   usage: TRIAGE/run.sh <worktree>        (default: the worktree holding this script)
#   env:   RUNS=3  CC=cc  EOS_VERBOSE=1 (runtime log)  EOS_FRAME_MS=15 (fake exposure)
#          EOS_FULLSIZE=1 (keep the 4 x 1 GiB rings of acquire_init)
# Builds two programs from eos_demo.c + the worktree's sources into a temp dir
# (removed on exit) and runs each RUNS times:
#   delayed : filter.c (only) compiled with -Dchannel_read_map=slow_channel_read_map
#   control : no wrapper
# exit: 0 all delayed runs 'ok'; 1 a delayed run printed DEFECT; 2 build/setup failure.
set -u
H=$(cd "$(dirname "$0")" && pwd)
R=$(cd "${1:-$H/..}" && pwd) || exit 2
C=$R/acquire-core-libs/src; V=$R/acquire-video-runtime/src
CC=${CC:-cc}; RUNS=${RUNS:-3}
W=$(mktemp -d "${TMPDIR:-/tmp}/eos-triage.XXXXXX") || exit 2
trap 'rm -rf "$W"' EXIT
INC="-I$V -I$V/runtime -I$C/acquire-core-platform/linux -I$C/acquire-core-logger -I$C/acquire-device-kit -I$C/acquire-device-properties -I$C/acquire-device-hal"
CF="-std=gnu11 -g -O1 -w -DNO_UNIT_TESTS $INC"
SMALL=-Dchannel_new=small_channel_new; [ -n "${EOS_FULLSIZE:-}" ] && SMALL=
# everything except filter.c, sink.c and the demo: compiled once, as is
COMMON="$V/acquire.c $V/runtime/channel.c $V/runtime/throttler.c $V/runtime/source.c $V/runtime/vfslice.c $V/runtime/frame_iterator.c
 $C/acquire-core-platform/linux/platform.c $C/acquire-core-logger/logger.c
 $C/acquire-device-properties/device/props/device.c $C/acquire-device-properties/device/props/components.c $C/acquire-device-properties/device/props/storage.c
 $C/acquire-device-hal/device/hal/camera.c $C/acquire-device-hal/device/hal/storage.c $C/acquire-device-hal/device/hal/driver.c"
mkdir "$W/common" "$W/delayed" "$W/control"
if [ "$(git -C "$R" rev-parse --show-toplevel 2>/dev/null)" = "$R" ]; then
  echo "sources: $R ($(git -C "$R" rev-parse --short HEAD)$(git -C "$R" diff --quiet -- acquire-video-runtime acquire-core-libs || echo ' +local changes'))"
else echo "sources: $R (not a git checkout)"; fi
( cd "$W/common" && for f in $COMMON; do $CC $CF -c "$f" || exit 2; done
  $CC $CF $SMALL -c "$V/runtime/sink.c" ) || { echo "build failed"; exit 2; }
( cd "$W/delayed" && $CC $CF $SMALL -Dchannel_read_map=slow_channel_read_map -c "$V/runtime/filter.c" &&
  $CC $CF -DEOS_DELAY -c "$H/eos_demo.c" && $CC ./*.o ../common/*.o -o t -lpthread -ldl -lm ) || { echo "build failed"; exit 2; }
( cd "$W/control" && $CC $CF $SMALL -c "$V/runtime/filter.c" &&
  $CC $CF -c "$H/eos_demo.c" && $CC ./*.o ../common/*.o -o t -lpthread -ldl -lm ) || { echo "build failed"; exit 2; }
rc=0
for variant in delayed control; do
  for i in $(seq "$RUNS"); do
    echo "=== $variant, run $i"
    timeout 120 "$W/$variant/t"; r=$?
    echo "  rc=$r"
    if [ $variant = delayed ] && [ $r -ne 0 ]; then [ $r -eq 1 ] && [ $rc -ne 2 ] && rc=1 || rc=2; fi
  done
done
exit $rc
