// End-of-stream replay: "the sink's final flush is not ordered after the
// filter's final emit".
//
// Drives the REAL runtime (acquire.c, source.c, filter.c, sink.c, channel.c,
// the HAL camera.c/storage.c/driver.c) through the public acquire_* API. Only
// the device manager is replaced (device.manager.cpp dlopen()s driver
// libraries): the one below serves a single in-process driver with a fake
// camera (device 0) and a fake storage (device 1) plugged in through the real
// `struct Camera` / `struct Storage`.
//
// Schedule forcing (built with -DEOS_DELAY, and filter.c -- only that file --
// compiled with -Dchannel_read_map=slow_channel_read_map): the wrapper below
// is then what the filter thread calls at the top of process_data(). It sleeps
// DELAY_MS when the filter's stop flag is already up, i.e. in front of the
// filter's final flush, and then calls the real channel_read_map(). Nothing
// else is changed.
//
// One stream, frame_average_count = K, max_frame_count = N. The acquisition
// is run twice. Expected per acquisition: N/K frames with ids 0,K,2K,...

#include "acquire.h"
#include "device/hal/device.manager.h"
#include "device/kit/camera.h"
#include "device/kit/driver.h"
#include "device/kit/storage.h"
#include "device/props/components.h"
#include "logger.h"
#include "platform.h"
#include "runtime/channel.h"
#include "runtime/filter.h"

#include <stdio.h>
#include <stdlib.h>
#include <string.h>

#define N_FRAMES 8
#define K_AVERAGE 2
#define DELAY_MS 200.0f
#define WIDTH 64
#define HEIGHT 48
#define MAX_REC 64
#define containerof(P, T, F) ((T*)(((char*)(P)) - offsetof(T, F)))

static int verbose;
static float frame_period_ms = 15.0f;

static void
reporter(int is_error,
         const char* file,
         int line,
         const char* function,
         const char* msg)
{
    if (is_error || verbose)
        fprintf(stderr,
                "%s%s(%d) - %s: %s\n",
                is_error ? "ERROR " : "",
                file,
                line,
                function,
                msg);
}

//
//  Schedule forcing
//

static int delay_count;

/// filter.c calls this in place of channel_read_map() in the delayed build.
struct slice
slow_channel_read_map(struct channel* self, struct channel_reader* reader)
{
    // filter.c only maps its own input ring, a member of its context.
    struct video_filter_s* filter =
      containerof(self, struct video_filter_s, in);
    if (filter->is_stopping) {
        ++delay_count;
        clock_sleep_ms(0, DELAY_MS);
    }
    return channel_read_map(self, reader);
}

/// sink.c and filter.c call this in place of channel_new() (unless
/// EOS_FULLSIZE): acquire_init() asks for 4 rings of 1 GiB that channel_new()
/// memset()s. The ring logic does not depend on the capacity; the frames here
/// are ~12 kB.
void
small_channel_new(struct channel* self, size_t capacity)
{
    const size_t cap = 64ULL << 20;
    channel_new(self, capacity > cap ? cap : capacity);
}

//
//  Fake camera
//

struct fake_camera
{
    struct Camera camera;
    struct CameraProperties props;
    uint64_t hardware_frame_id;
    int nstart, nstop;
};

static struct ImageShape
fake_shape(void)
{
    return (struct ImageShape){
        .dims = { .channels = 1, .width = WIDTH, .height = HEIGHT, .planes = 1 },
        .strides = { .channels = 1,
                     .width = 1,
                     .height = WIDTH,
                     .planes = WIDTH * HEIGHT },
        .type = SampleType_u8,
    };
}

static enum DeviceStatusCode
cam_set(struct Camera* self_, struct CameraProperties* settings)
{
    containerof(self_, struct fake_camera, camera)->props = *settings;
    return Device_Ok;
}

static enum DeviceStatusCode
cam_get(const struct Camera* self_, struct CameraProperties* settings)
{
    *settings = containerof(self_, struct fake_camera, camera)->props;
    settings->shape.x = WIDTH;
    settings->shape.y = HEIGHT;
    settings->pixel_type = SampleType_u8;
    return Device_Ok;
}

static enum DeviceStatusCode
cam_get_meta(const struct Camera* self_, struct CameraPropertyMetadata* meta)
{
    memset(meta, 0, sizeof(*meta));
    return Device_Ok;
}

static enum DeviceStatusCode
cam_get_shape(const struct Camera* self_, struct ImageShape* shape)
{
    *shape = fake_shape();
    return Device_Ok;
}

static enum DeviceStatusCode
cam_start(struct Camera* self_)
{
    struct fake_camera* self = containerof(self_, struct fake_camera, camera);
    self->hardware_frame_id = 0;
    ++self->nstart;
    return Device_Ok;
}

static enum DeviceStatusCode
cam_stop(struct Camera* self_)
{
    ++containerof(self_, struct fake_camera, camera)->nstop;
    return Device_Ok;
}

static enum DeviceStatusCode
cam_execute_trigger(struct Camera* self_)
{
    return Device_Ok;
}

static enum DeviceStatusCode
cam_get_frame(struct Camera* self_,
              void* im,
              size_t* nbytes,
              struct ImageInfo* info)
{
    struct fake_camera* self = containerof(self_, struct fake_camera, camera);
    const size_t n = WIDTH * HEIGHT;
    if (*nbytes < n)
        return Device_Err;
    clock_sleep_ms(0, frame_period_ms); // the exposure
    memset(im, (int)(10 * (self->hardware_frame_id + 1)), n);
    *nbytes = n;
    *info = (struct ImageInfo){
        .shape = fake_shape(),
        .hardware_timestamp = self->hardware_frame_id,
        .hardware_frame_id = self->hardware_frame_id,
    };
    ++self->hardware_frame_id;
    return Device_Ok;
}

//
//  Fake storage: records what it is given, per run (start .. stop)
//

struct run_record
{
    int nframes;
    uint64_t ids[MAX_REC];
    float first_pixel[MAX_REC];
    int stopped;
};

struct fake_storage
{
    struct Storage storage;
    int nruns; // number of start() calls so far
    struct run_record runs[8];
};

static enum DeviceState
sto_set(struct Storage* self_, const struct StorageProperties* settings)
{
    return DeviceState_Armed;
}

static void
sto_get(const struct Storage* self_, struct StorageProperties* settings)
{
}

static void
sto_get_meta(const struct Storage* self_, struct StoragePropertyMetadata* meta)
{
    memset(meta, 0, sizeof(*meta));
}

static enum DeviceState
sto_start(struct Storage* self_)
{
    struct fake_storage* self = containerof(self_, struct fake_storage, storage);
    if (self->nruns >= 8)
        return DeviceState_AwaitingConfiguration;
    memset(&self->runs[self->nruns++], 0, sizeof(self->runs[0]));
    return DeviceState_Running;
}

static enum DeviceState
sto_append(struct Storage* self_, const struct VideoFrame* frame, size_t* nbytes)
{
    struct fake_storage* self = containerof(self_, struct fake_storage, storage);
    struct run_record* run = &self->runs[self->nruns - 1];
    const uint8_t* cur = (const uint8_t*)frame;
    const uint8_t* const end = cur + *nbytes;
    while (cur < end) {
        const struct VideoFrame* f = (const struct VideoFrame*)cur;
        if (run->nframes < MAX_REC) {
            run->ids[run->nframes] = f->frame_id;
            run->first_pixel[run->nframes] =
              (f->shape.type == SampleType_f32) ? *(const float*)f->data
                                                : (float)f->data[0];
        }
        ++run->nframes;
        cur += f->bytes_of_frame;
    }
    return DeviceState_Running;
}

static enum DeviceState
sto_stop(struct Storage* self_)
{
    struct fake_storage* self = containerof(self_, struct fake_storage, storage);
    self->runs[self->nruns - 1].stopped = 1;
    return DeviceState_Armed;
}

static void
sto_destroy(struct Storage* self_)
{
}

static void
sto_reserve_image_shape(struct Storage* self_, const struct ImageShape* shape)
{
}

//
//  One in-process driver, and the device manager that serves it
//

static struct fake_camera g_camera = {
    .camera = { .state = DeviceState_AwaitingConfiguration,
                .set = cam_set,
                .get = cam_get,
                .get_meta = cam_get_meta,
                .get_shape = cam_get_shape,
                .start = cam_start,
                .stop = cam_stop,
                .execute_trigger = cam_execute_trigger,
                .get_frame = cam_get_frame },
};

static struct fake_storage g_storage = {
    .storage = { .state = DeviceState_AwaitingConfiguration,
                 .set = sto_set,
                 .get = sto_get,
                 .get_meta = sto_get_meta,
                 .start = sto_start,
                 .append = sto_append,
                 .stop = sto_stop,
                 .destroy = sto_destroy,
                 .reserve_image_shape = sto_reserve_image_shape },
};

static uint32_t
drv_device_count(struct Driver* self)
{
    return 2;
}

static enum DeviceStatusCode
drv_describe(const struct Driver* self,
             struct DeviceIdentifier* identifier,
             uint64_t i)
{
    if (i > 1)
        return Device_Err;
    *identifier = (struct DeviceIdentifier){
        .driver_id = 0,
        .device_id = (uint8_t)i,
        .kind = i ? DeviceKind_Storage : DeviceKind_Camera,
    };
    snprintf(identifier->name,
             sizeof(identifier->name),
             "%s",
             i ? "fake storage" : "fake camera");
    return Device_Ok;
}

static enum DeviceStatusCode
drv_open(struct Driver* self, uint64_t device_id, struct Device** out)
{
    if (device_id > 1)
        return Device_Err;
    *out = device_id ? &g_storage.storage.device : &g_camera.camera.device;
    return Device_Ok;
}

static enum DeviceStatusCode
drv_close(struct Driver* self, struct Device* in)
{
    return Device_Ok;
}

static enum DeviceStatusCode
drv_shutdown(struct Driver* self)
{
    return Device_Ok;
}

static struct Driver g_driver = {
    .device_count = drv_device_count,
    .describe = drv_describe,
    .open = drv_open,
    .close = drv_close,
    .shutdown = drv_shutdown,
};

enum DeviceStatusCode
device_manager_init(struct DeviceManager* self,
                    void (*reporter_)(int, const char*, int, const char*, const char*))
{
    self->impl = &g_driver;
    return Device_Ok;
}

enum DeviceStatusCode
device_manager_destroy(struct DeviceManager* self)
{
    self->impl = 0;
    return Device_Ok;
}

uint32_t
device_manager_count(const struct DeviceManager* self)
{
    return 2;
}

enum DeviceStatusCode
device_manager_get(struct DeviceIdentifier* out,
                   const struct DeviceManager* self,
                   uint32_t index)
{
    return drv_describe(&g_driver, out, index);
}

enum DeviceStatusCode
device_manager_select_first(const struct DeviceManager* self,
                            enum DeviceKind kind,
                            struct DeviceIdentifier* out)
{
    if (kind == DeviceKind_Camera)
        return drv_describe(&g_driver, out, 0);
    if (kind == DeviceKind_Storage)
        return drv_describe(&g_driver, out, 1);
    return Device_Err;
}

enum DeviceStatusCode
device_manager_select(const struct DeviceManager* self,
                      enum DeviceKind kind,
                      const char* name,
                      size_t bytes_of_name,
                      struct DeviceIdentifier* out)
{
    return device_manager_select_first(self, kind, out);
}

enum DeviceStatusCode
device_manager_select_default(const struct DeviceManager* self,
                              enum DeviceKind kind,
                              struct DeviceIdentifier* out)
{
    return device_manager_select_first(self, kind, out);
}

struct Driver*
device_manager_get_driver(const struct DeviceManager* self,
                          const struct DeviceIdentifier* identifier)
{
    return &g_driver;
}

//
//  The scenario
//

#define REQUIRE(e)                                                             \
    do {                                                                       \
        if (!(e)) {                                                            \
            printf("SETUP FAILED (%s:%d): %s\n", __FILE__, __LINE__, #e);      \
            exit(2);                                                           \
        }                                                                      \
    } while (0)

/// Frames visible to an (already initialized) monitor reader right now.
static int
monitor_count(struct AcquireRuntime* runtime)
{
    struct VideoFrame *beg = 0, *end = 0;
    int n = 0;
    REQUIRE(acquire_map_read(runtime, 0, &beg, &end) == AcquireStatus_Ok);
    for (uint8_t* cur = (uint8_t*)beg; cur < (uint8_t*)end;
         cur += ((struct VideoFrame*)cur)->bytes_of_frame)
        ++n;
    REQUIRE(acquire_unmap_read(
              runtime, 0, (size_t)((uint8_t*)end - (uint8_t*)beg)) ==
            AcquireStatus_Ok);
    return n;
}

static void
acquire_once(struct AcquireRuntime* runtime)
{
    struct clock timeout;
    REQUIRE(acquire_start(runtime) == AcquireStatus_Ok);
    clock_init(&timeout);
    // a finite acquisition: wait until all three threads of the stream left
    while (acquire_get_state(runtime) == DeviceState_Running) {
        REQUIRE(clock_toc_ms(&timeout) < 20e3);
        clock_sleep_ms(0, 5.0f);
    }
    REQUIRE(acquire_stop(runtime) == AcquireStatus_Ok);
}

static int
print_run(int i, const struct run_record* run)
{
    const int expected = N_FRAMES / K_AVERAGE;
    int ok = (run->nframes == expected) && run->stopped;
    printf("  acquisition %d: storage received %d frame(s), ids [", i, run->nframes);
    for (int j = 0; j < run->nframes && j < MAX_REC; ++j) {
        printf("%s%d", j ? "," : "", (int)run->ids[j]);
        ok &= (j < expected) && (run->ids[j] == (uint64_t)(j * K_AVERAGE));
    }
    printf("], first pixel of each [");
    for (int j = 0; j < run->nframes && j < MAX_REC; ++j)
        printf("%s%g", j ? "," : "", run->first_pixel[j]);
    printf("]; expected %d with ids [", expected);
    for (int j = 0; j < expected; ++j)
        printf("%s%d", j ? "," : "", j * K_AVERAGE);
    printf("]%s\n", ok ? "" : "  <-- WRONG");
    return ok;
}

int
main(void)
{
    verbose = getenv("EOS_VERBOSE") != 0;
    if (getenv("EOS_FRAME_MS"))
        frame_period_ms = (float)atof(getenv("EOS_FRAME_MS"));

    struct AcquireRuntime* runtime = acquire_init(reporter);
    REQUIRE(runtime);
    const struct DeviceManager* dm = acquire_device_manager(runtime);

    struct AcquireProperties props = { 0 };
    REQUIRE(acquire_get_configuration(runtime, &props) == AcquireStatus_Ok);
    REQUIRE(device_manager_select(dm,
                                  DeviceKind_Camera,
                                  0,
                                  0,
                                  &props.video[0].camera.identifier) ==
            Device_Ok);
    REQUIRE(device_manager_select(dm,
                                  DeviceKind_Storage,
                                  0,
                                  0,
                                  &props.video[0].storage.identifier) ==
            Device_Ok);
    props.video[0].max_frame_count = N_FRAMES;
    props.video[0].frame_average_count = K_AVERAGE;
    REQUIRE(acquire_configure(runtime, &props) == AcquireStatus_Ok);
    REQUIRE(acquire_get_state(runtime) == DeviceState_Armed);

    // A monitor client that exists from the beginning (it has a reader).
    REQUIRE(monitor_count(runtime) == 0);

    acquire_once(runtime);
    const int monitor_between = monitor_count(runtime);
    // identical second acquisition
    REQUIRE(acquire_configure(runtime, &props) == AcquireStatus_Ok);
    acquire_once(runtime);
    const int monitor_after = monitor_count(runtime);

#ifdef EOS_DELAY
    printf("  build: DELAYED (filter slept %g ms in front of %d process_data() "
           "call(s) made with its stop flag up)\n",
           DELAY_MS,
           delay_count);
#else
    printf("  build: control (no delay)\n");
#endif
    REQUIRE(g_storage.nruns == 2);
    REQUIRE(g_camera.nstart == 2);
    const int ok1 = print_run(1, &g_storage.runs[0]);
    const int ok2 = print_run(2, &g_storage.runs[1]);
    printf("  (monitor reader: %d frame(s) left readable after stop 1, %d after "
           "stop 2)\n",
           monitor_between,
           monitor_after);

    const struct run_record r1 = g_storage.runs[0], r2 = g_storage.runs[1];
    REQUIRE(acquire_shutdown(runtime) == AcquireStatus_Ok);

    if (ok1 && ok2) {
        printf("ok\n");
        return 0;
    }
    printf("DEFECT: acquisition 1 stored %d of %d frames%s; acquisition 2 "
           "stored %d of %d frames, its first id is %d%s\n",
           r1.nframes,
           N_FRAMES / K_AVERAGE,
           r1.nframes < N_FRAMES / K_AVERAGE ? " (tail lost)" : "",
           r2.nframes,
           N_FRAMES / K_AVERAGE,
           r2.nframes ? (int)r2.ids[0] : -1,
           (r2.nframes && r2.ids[0] != 0)
             ? " (a stale frame of acquisition 1 that was still in sink.in)"
             : "");
    return 1;
}
