#include "acquire.h"
#include "device/hal/device.manager.h"
#include <stdio.h>
#include <string.h>
#include <unistd.h>
static void rep(int e,const char*f,int l,const char*fn,const char*m){ if(e) printf("  LOG[%s:%d] %s\n",fn,l,m);}
#define OK(e) do{ int r_=(e); printf("%-60s -> %s\n", #e, r_==AcquireStatus_Ok?"Ok":"ERROR"); }while(0)
int main(){ setvbuf(stdout,0,_IONBF,0);
  struct AcquireRuntime* rt=acquire_init(rep); const struct DeviceManager* dm=acquire_device_manager(rt);
  struct AcquireProperties p={0}; acquire_get_configuration(rt,&p);
  device_manager_select(dm,DeviceKind_Camera,"simulated: empty",16,&p.video[0].camera.identifier);
  device_manager_select(dm,DeviceKind_Storage,"trash",5,&p.video[0].storage.identifier);
  p.video[0].camera.settings.binning=1; p.video[0].camera.settings.shape.x=64; p.video[0].camera.settings.shape.y=48;
  p.video[0].camera.settings.exposure_time_us=1e3f; p.video[0].max_frame_count=20;
  OK(acquire_configure(rt,&p)); OK(acquire_start(rt));
  struct VideoFrame *b=0,*e=0; 
  do { usleep(20000); acquire_map_read(rt,0,&b,&e);  if(b==e) acquire_unmap_read(rt,0,0);} while(b==e);
  printf("client holds %ld bytes mapped across stop\n",(long)((char*)e-(char*)b));
  OK(acquire_stop(rt));
  OK(acquire_unmap_read(rt,0,(char*)e-(char*)b));
  OK(acquire_configure(rt,&p)); OK(acquire_start(rt)); usleep(100000);
  OK(acquire_map_read(rt,0,&b,&e));
  OK(acquire_stop(rt)); acquire_shutdown(rt); return 0; }
