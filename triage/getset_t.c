// Replay (C13): set a storage device from the properties it reports itself -
// what every client does that reads the configuration, edits something else
// and configures again.  raw_get hands out a struct copy, so the "source" of
// the copy in raw_set is a shallow view of the destination:
//   - copy_string zeroes dst->str and then copies from src->str, the same bytes;
//   - storage_properties_copy destroys dst's dimension array and then walks
//     src's, the same (freed) array.  Build with ASan for the second part.
#include "device/kit/storage.h"
#include "device/props/storage.h"
#include <stdio.h>
#include <string.h>
struct Storage* raw_init();
int main(int argc, char** argv){
  struct Storage* s = raw_init(); struct StorageProperties p={0}, q={0}, r={0}; struct PixelScale ps={1,1};
  int dims = argc > 1;
  storage_properties_init(&p,0,"getset.raw",11,0,0,ps,dims?2:0);
  if (dims) { storage_properties_set_dimension(&p,0,"x",2,DimensionType_Space,64,16,1);
              storage_properties_set_dimension(&p,1,"t",2,DimensionType_Time,0,1,1); }
  printf("set(caller's)     -> state %d\n", s->set(s,&p));
  s->get(s,&q);
  printf("get               -> uri '%s' (%zu bytes)\n", q.uri.str, q.uri.nbytes);
  printf("set(what get gave)-> state %d\n", s->set(s,&q));
  s->get(s,&r);
  printf("get               -> uri '%s' (%zu bytes)%s\n", r.uri.str, r.uri.nbytes,
         strcmp(r.uri.str,"getset.raw") ? "   DEFECT: the device lost its own URI" : "   ok");
  if (dims) printf("dim0 name '%s'\n", r.acquisition_dimensions.data[0].name.str);
  return strcmp(r.uri.str,"getset.raw") != 0; }
