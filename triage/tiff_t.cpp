#include "device/kit/storage.h"
#include "device/props/storage.h"
#include <cstdio>
#include <cstdlib>
#include <cstring>
#include <unistd.h>
#include <dirent.h>
#include <sys/stat.h>
extern "C" struct Storage* tiff_init();
extern "C" struct Storage* side_by_side_tiff_init();
#include "logger.h"
static void rep(int e,const char*f,int l,const char*fn,const char*m){ if(e) printf("LOG[%s:%d] %s\n",fn,l,m);}
static int nfds(){ int n=0; DIR* d=opendir("/proc/self/fd"); while(readdir(d)) n++; closedir(d); return n-3; }
// the HAL's protocol, as in hal/storage.c
static void hal_set(Storage*s,StorageProperties*p){ s->state=s->set(s,p);}
static void hal_start(Storage*s){ s->state=s->start(s);}
static int hal_append(Storage*s,VideoFrame*f,size_t n){ s->state=s->append(s,f,&n); return s->state==DeviceState_Running;}
static void hal_stop(Storage*s){ if(s->state==DeviceState_Running) s->state=s->stop(s);}
int main(int argc,char**argv){ setvbuf(stdout,0,_IONBF,0); logger_set_reporter(rep);
  size_t n=sizeof(VideoFrame)+64; VideoFrame* f=(VideoFrame*)calloc(1,n); f->bytes_of_frame=n; f->shape.dims={1,8,8,1}; f->shape.strides={1,1,8,64}; f->shape.type=SampleType_u8;
  StorageProperties p{}; PixelScale ps{1,1};
  if(argc>1 && !strcmp(argv[1],"sbs")){
    Storage* s=side_by_side_tiff_init(); int before=nfds();
    storage_properties_init(&p,0,"sbs_out",8,"{}",3,ps,0); hal_set(s,&p); printf("set->%d\n",s->state); hal_start(s); printf("start->%d\n",s->state);
    printf("append ok=%d\n",hal_append(s,f,n)); hal_stop(s); 
    s->destroy(s);
    printf("open descriptors leaked after stop+destroy: %d\n", nfds()-before);
    FILE* fp=fopen("sbs_out/data.tif","rb"); fseek(fp,0,SEEK_END); long sz=ftell(fp);
    // first ifd at 16: ntags(8) + 16 tags*20 + next(8)
    unsigned long long next=0; fseek(fp,16+8+16*20,SEEK_SET); fread(&next,8,1,fp); printf("file size %ld, last IFD next link = %llu (must be 0)\n",sz,next); return 0; }
  Storage* s=tiff_init();
  storage_properties_init(&p,0,"/dev/full",10,0,0,ps,0); hal_set(s,&p); printf("set -> %d\n",s->state); hal_start(s); printf("start -> %d (header write to /dev/full failed, yet Running=3?)\n",s->state);
  printf("appending...\n"); fflush(stdout);
  printf("append ok=%d\n",hal_append(s,f,n)); return 0; }
