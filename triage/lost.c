// Finding 1 (C03): refuse-writes lands between the writer's check and its sleep.
// channel.c must be compiled with -Dcondition_variable_wait=hooked_wait.
// channel_accept_writes takes no lock, so calling it at the hook point is a
// legal interleaving of another thread's abort.
#include "runtime/channel.h"
#include <stdio.h>
#include <unistd.h>
#include <signal.h>
static struct channel c;
static int inject=0;
void real_wait(struct condition_variable* cv, struct lock* l);
void hooked_wait(struct condition_variable* cv, struct lock* l){
  if(inject){ inject=0; channel_accept_writes(&c,0); }
  real_wait(cv,l);
}
static void on_alarm(int s){ printf("HANG: writer still asleep 2s after writes were refused\n"); _exit(1);}
int main(){ setvbuf(stdout,0,_IONBF,0);
  channel_new(&c,100);
  struct channel_reader r={0};
  struct slice s=channel_read_map(&c,&r); channel_read_unmap(&c,&r,0);
  for(int i=0;i<3;i++){ channel_write_map(&c,30); channel_write_unmap(&c);} // reader lags: ring full
  signal(SIGALRM,on_alarm); alarm(2);
  inject=1;
  void*p=channel_write_map(&c,30);
  printf("writer returned %p (no hang)\n",p); return 0; }
