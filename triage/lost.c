// Finding 1 (C03): refuse-writes lands between the writer's check and its sleep.
// channel.c must be compiled with -Dcondition_variable_wait=hooked_wait.
// A second thread calls channel_accept_writes(.,0) at the hook point (after the
// writer's check, before its sleep) and is given 300 ms to run. Without the
// lock around the store it finishes store+notify before the writer sleeps
// (lost wake-up); with the lock it blocks until the wait releases the mutex.
#include "runtime/channel.h"
#include <stdio.h>
#include <unistd.h>
#include <signal.h>
#include <pthread.h>
static struct channel c;
static int inject=0;
void real_wait(struct condition_variable* cv, struct lock* l);
static void* refuse(void*a){ channel_accept_writes(&c,0); return 0; }
void hooked_wait(struct condition_variable* cv, struct lock* l){
  if(inject){ inject=0; pthread_t t; pthread_create(&t,0,refuse,0); usleep(300000); }
  real_wait(cv,l);
}
static void on_alarm(int s){ printf("HANG: writer still asleep 2s after writes were refused\n"); _exit(1);}
int main(){ setvbuf(stdout,0,_IONBF,0);
  channel_new(&c,100);
  struct channel_reader r={0};
  struct slice s=channel_read_map(&c,&r); channel_read_unmap(&c,&r,0);
  for(int i=0;i<3;i++){ channel_write_map(&c,30); channel_write_unmap(&c);} // reader lags: ring full
  signal(SIGALRM,on_alarm); alarm(2);
  inject=1;
  void*p=channel_write_map(&c,30);
  printf("writer returned %p (no hang)\n",p); return 0; }
