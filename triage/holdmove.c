// Triage (C03): channel_read_map moves a drained reader's hold from (lap-1, high) to (lap, 0)
// without notifying; when nothing has been committed in the new lap (wrap followed by
// channel_abort_write) the reader is not mapped, so no channel_read_unmap / notify follows, and a
// writer sleeping on the old hold is never woken although its request now fits.
#include "runtime/channel.h"
#include "platform.h"
#include <stdio.h>
#include <string.h>
#include <unistd.h>

static struct channel ch;
static volatile int writer_done = 0;

static void
writer(void* arg)
{
    void* p = channel_write_map(&ch, 50); // needs more than high(40) - head(0): sleeps
    writer_done = p ? 1 : -1;
    channel_write_unmap(&ch);
}

int
main()
{
    struct channel_reader rd = { 0 };
    channel_new(&ch, 64);
    channel_read_map(&ch, &rd); // register
    channel_read_unmap(&ch, &rd, 0);

    void* p = channel_write_map(&ch, 40); // [0,40)
    memset(p, 1, 40);
    channel_write_unmap(&ch);
    struct slice s = channel_read_map(&ch, &rd);
    channel_read_unmap(&ch, &rd, s.end - s.beg); // hold = (0, 40): drained

    p = channel_write_map(&ch, 30); // does not fit in [40,64): wraps, high = 40, head = 0, lap 1
    channel_abort_write(&ch);       // e.g. the camera delivered nothing: mapped = head = 0

    struct thread t;
    thread_init(&t);
    thread_create(&t, writer, 0);
    usleep(200 * 1000); // writer now sleeps: 50 > high - head = 40

    for (int i = 0; i < 20 && !writer_done; ++i) { // the reader keeps reading
        s = channel_read_map(&ch, &rd);
        channel_read_unmap(&ch, &rd, s.end - s.beg);
        usleep(50 * 1000);
    }
    if (!writer_done) {
        printf("DEFECT: the reader drained everything (hold at head), 50 <= capacity 64, "
               "but the writer is still asleep after 20 reads\n");
        channel_accept_writes(&ch, 0); // let it go
        thread_join(&t);
        return 1;
    }
    thread_join(&t);
    printf("ok: writer resumed\n");
    return 0;
}
