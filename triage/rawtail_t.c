// Triage (C14): file_create opens without truncating; a second acquisition to the SAME path that
// appends fewer bytes than the first leaves the first one's tail in the file.
#include "device/kit/storage.h"
#include "device/props/storage.h"
#include <stdio.h>
#include <stdlib.h>
#include <string.h>
#include <unistd.h>
#include <sys/stat.h>
struct Storage* raw_init();
static void frame(struct VideoFrame* f, size_t payload){ memset(f,0,sizeof(*f)+payload); f->bytes_of_frame=sizeof(*f)+payload; }
int main(){
  struct Storage* s = raw_init(); struct StorageProperties p={0}; struct PixelScale ps={1,1};
  size_t n=sizeof(struct VideoFrame)+64; struct VideoFrame* f=malloc(n); frame(f,64);
  unlink("same.raw");
  storage_properties_init(&p,0,"same.raw",9,0,0,ps,0);
  s->set(s,&p); s->start(s); for(int i=0;i<3;++i){ size_t nb=n; s->append(s,f,&nb);} s->stop(s);
  s->set(s,&p); s->start(s); { size_t nb=n; s->append(s,f,&nb);} s->stop(s);
  struct stat st; stat("same.raw",&st);
  printf("second acquisition appended %zu bytes, file holds %ld\n", n, (long)st.st_size);
  unlink("same.raw");
  if((size_t)st.st_size!=n){ printf("DEFECT: the file is not exactly the frames appended during that acquisition (stale tail of the earlier one)\n"); return 1; }
  printf("ok\n"); return 0; }
