#include "device/hal/storage.h"
#include "device/hal/driver.h"
#include "device/kit/storage.h"
#include <stdio.h>
struct Storage* trash_init();
#define containerof(P,T,F) ((T*)(((char*)(P))-offsetof(T,F)))
static enum DeviceStatusCode d_close(struct Driver* d, struct Device* dev){ struct Storage* s=containerof(dev,struct Storage,device); s->destroy(s); return Device_Ok; }
int main(){ struct Driver drv={.close=d_close}; struct Storage* s=trash_init(); s->device.driver=&drv; storage_close(s); printf("closed\n"); return 0; }
