#!/bin/sh
# Builds the fact extractor (one libTooling program) from files on disk only.
set -e
cd "$(dirname "$0")"
mkdir -p bin
if [ ! -x bin/acqfacts ] || [ tools/acqfacts.cc -nt bin/acqfacts ]; then
  clang++ $(llvm-config-14 --cxxflags) -fno-rtti -O1 tools/acqfacts.cc -o bin/acqfacts.tmp \
    /usr/lib/llvm-14/lib/libclang-cpp.so.14 /usr/lib/llvm-14/lib/libLLVM-14.so
  mv bin/acqfacts.tmp bin/acqfacts
fi
echo "acqfacts ready"
