#!/usr/bin/env python3
"""tools/matrix.py [patch ...] : run every check against every patch (seeded/*/patch.diff and
mutants/*.patch by default) on a scratch copy of /repo and record which checks report a
VIOLATION / ANALYSIS-BROKEN.  Writes seeded/matrix.json.  Sensitivity control only."""
import json, os, subprocess, sys, glob, tempfile, shutil
from concurrent.futures import ThreadPoolExecutor
V = os.path.dirname(os.path.dirname(os.path.abspath(__file__)))
CHECKS = ["C%02d" % i for i in range(1, 19)]
patches = sys.argv[1:] or sorted(glob.glob(V + "/seeded/*/patch.diff")) + sorted(glob.glob(V + "/mutants/*.patch"))

PROP_FILES = json.load(open(V + "/tools/prop_files.json")) if os.path.exists(V + "/tools/prop_files.json") else {}


def relevant_checks(p):
    """MATRIX_RELEVANT=1: only the checks that analyse (or are anchored in) a file the patch touches;
    headers are relevant to everybody"""
    if not os.environ.get("MATRIX_RELEVANT") or not PROP_FILES:
        return CHECKS
    touched = set()
    for line in open(p, errors="replace"):
        if line.startswith("+++ b/") or line.startswith("--- a/"):
            touched.add(line[6:].strip())
    if any(t.endswith(".h") for t in touched):
        return CHECKS
    out = [c for c in CHECKS if any(t in PROP_FILES.get(c, []) or any(t.endswith(os.path.basename(x)) and os.path.basename(x) == os.path.basename(t) for x in PROP_FILES.get(c, [])) for t in touched)]
    return out or CHECKS


# one snapshot of /repo for the whole run: /repo may be edited while the matrix runs
_BASE_DIR = tempfile.mkdtemp(prefix="acq-mxbase.", dir="/var/tmp")
BASE = _BASE_DIR + "/repo"
subprocess.run(["rsync", "-a", "--exclude", "_build", "--exclude", ".git", "/repo/", BASE + "/"], check=True)
import atexit
atexit.register(lambda: shutil.rmtree(_BASE_DIR, ignore_errors=True))


def run_patch(p):
    w = tempfile.mkdtemp(prefix="acq-mx.", dir="/var/tmp")
    try:
        subprocess.run(["rsync", "-a", BASE + "/", w + "/repo/"], check=True)
        r = subprocess.run([V + "/tools/apply_patch.sh", w + "/repo", os.path.abspath(p)], capture_output=True, text=True)
        if r.returncode != 0:
            return p, {"error": "patch does not apply: " + (r.stdout + r.stderr)[-300:]}
        out = {}
        env = dict(os.environ, ACQ_REPO=w + "/repo", ACQ_NO_EVIDENCE="1", ACQ_NO_CONTROLS="1")
        todo = relevant_checks(p)
        r = subprocess.run([V + "/check", ",".join(todo) + ("," if len(todo) == 1 else "")], capture_output=True, text=True, env=env, cwd=V)
        cur, buf = None, {}
        for l in r.stdout.splitlines():
            if l.startswith("=== rc "):
                _, _, c, rc = l.split()
                lines = buf.get(c, [])
                rules = sorted({x.split("[")[1].split("]")[0] for x in lines if x.strip().startswith("finding [")})
                for x in lines:
                    if x.startswith("VIOLATION ") and "replay=" in x:
                        rp = x.split("replay=")[1].strip()
                        try:
                            rules = sorted({f["rule"] for f in json.load(open(rp))["findings"]})
                            if rp.startswith(tempfile.gettempdir()):
                                os.remove(rp)
                        except Exception:
                            pass
                out[c] = {"rc": int(rc), "rules": rules}
                cur = None
            elif l.startswith("=== "):
                cur = l.split()[1]
                buf[cur] = []
            elif cur is not None:
                buf[cur].append(l)
        for c in todo:
            out.setdefault(c, {"rc": 2, "rules": ["checker crashed: " + r.stderr[-200:]]})
        return p, out
    finally:
        shutil.rmtree(w, ignore_errors=True)

res = {}
with ThreadPoolExecutor(max_workers=int(os.environ.get("MATRIX_JOBS", "10"))) as ex:
    for p, out in ex.map(run_patch, patches):
        name = os.path.relpath(p, V)
        res[name] = out
        if "error" in out:
            print(name, out["error"]); continue
        hit = {c: v["rules"] for c, v in out.items() if v["rc"] == 1}
        broken = [c for c, v in out.items() if v["rc"] == 2]
        print("%-70s caught by %s%s" % (name, hit or "NOTHING", (" broken: %s" % broken) if broken else ""), flush=True)
old = {}
mp = os.environ.get("MATRIX_OUT", V + "/seeded/matrix.json")
if os.path.exists(mp) and sys.argv[1:]:
    old = json.load(open(mp))
old.update(res)
json.dump(old, open(mp, "w"), indent=1, sort_keys=True)
