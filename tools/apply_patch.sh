#!/bin/bash
# tools/apply_patch.sh <dir> <patch>: apply with exact line endings, else let patch adapt them
D=$1; P=$(realpath "$2")
patch --binary -p1 -s -f -d "$D" -i "$P" >/dev/null 2>&1 && exit 0
find "$D" -name '*.rej' -delete 2>/dev/null; find "$D" -name '*.orig' -delete 2>/dev/null
( cd "$D" && git checkout -- . 2>/dev/null )
patch -p1 -s -f -d "$D" -i "$P" >/dev/null 2>&1
