#!/bin/bash
# tools/apply_patch.sh <dir> <patch>: apply with exact line endings, else let patch adapt them.
# <dir> must be a scratch copy: the fallback discards uncommitted changes in it.
[ $# -eq 2 ] && [ -d "$1" ] && [ -f "$2" ] || { echo "usage: apply_patch.sh <scratch-dir> <patch>" >&2; exit 2; }
D=$(realpath "$1"); P=$(realpath "$2")
case "$D" in /repo|/repo/*|/verif|/verif/*) echo "apply_patch.sh: refusing to work in $D" >&2; exit 2;; esac
patch --binary -p1 -s -f -d "$D" -i "$P" >/dev/null 2>&1 && exit 0
find "$D" -name '*.rej' -delete 2>/dev/null; find "$D" -name '*.orig' -delete 2>/dev/null
( cd "$D" && git checkout -- . 2>/dev/null )
patch -p1 -s -f -d "$D" -i "$P" >/dev/null 2>&1
