#!/bin/bash
# like mkmutant.sh but writes refactors/<name>.patch (behaviour-preserving edits: every check must stay silent)
set -e
N=$1; F=$2; E=$3
W=$(mktemp -d /var/tmp/acq-mk.XXXXXX); trap 'rm -rf "$W"' EXIT
mkdir -p $W/a/$(dirname $F) $W/b/$(dirname $F)
cp /repo/$F $W/a/$F; cp /repo/$F $W/b/$F
python3 - "$W/b/$F" "$E" <<'PY'
import sys
p,e=sys.argv[1],sys.argv[2]
raw=open(p,'rb').read().decode()
crlf='\r\n' in raw
s=raw.replace('\r\n','\n')
t=eval(e)
assert t!=s, "transform changed nothing"
if crlf: t=t.replace('\n','\r\n')
open(p,'wb').write(t.encode())
PY
( cd $W && diff -u --label a/$F --label b/$F a/$F b/$F > /verif/refactors/$N.patch ) || true
echo "refactors/$N.patch: $(grep -c '^[-+][^-+]' /verif/refactors/$N.patch) changed lines"
