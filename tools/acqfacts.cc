// acqfacts: libTooling fact extractor for the acquire-common static checks.
// For every function defined under --root it emits the clang CFG lowered to a
// small JSON IR (see DESIGN.md 2.1); plus records, enums, globals and the
// lexical try/throw structure of C++ functions.
//
//   acqfacts --root=/repo --out=facts/x.json file.c -- <compile flags>
#include "clang/AST/ASTConsumer.h"
#include "clang/AST/ASTContext.h"
#include "clang/AST/ParentMap.h"
#include "clang/AST/RecordLayout.h"
#include "clang/AST/RecursiveASTVisitor.h"
#include "clang/Analysis/CFG.h"
#include "clang/Frontend/CompilerInstance.h"
#include "clang/Frontend/FrontendAction.h"
#include "clang/Tooling/CommonOptionsParser.h"
#include "clang/Tooling/Tooling.h"
#include "llvm/Support/CommandLine.h"
#include "llvm/Support/JSON.h"
#include "llvm/Support/raw_ostream.h"
#include <map>
#include <set>

using namespace clang;
using namespace clang::tooling;
namespace json = llvm::json;

static llvm::cl::OptionCategory Cat("acqfacts");
static llvm::cl::opt<std::string> Root("root", llvm::cl::desc("repo root"),
                                       llvm::cl::cat(Cat));
static llvm::cl::opt<std::string> Out("out", llvm::cl::desc("output file"),
                                      llvm::cl::cat(Cat));

namespace {

struct Emitter
{
    ASTContext& Ctx;
    SourceManager& SM;
    std::string root;
    json::Array functions, records, enums, globals;
    std::set<const RecordDecl*> seenRec;
    std::set<const EnumDecl*> seenEnum;
    std::set<const FunctionDecl*> seenFn;

    // per function state
    std::map<const Decl*, int> varIds;
    std::map<const Stmt*, std::pair<unsigned, unsigned>> elemOf; // stmt -> (block, idx)
    unsigned curBlock = 0;

    Emitter(ASTContext& C)
      : Ctx(C)
      , SM(C.getSourceManager())
    {
        root = Root;
        if (!root.empty() && root.back() != '/')
            root += '/';
    }

    std::string fileOf(SourceLocation L)
    {
        L = SM.getExpansionLoc(L);
        if (L.isInvalid())
            return "";
        auto F = SM.getFilename(L);
        llvm::SmallString<256> P(F);
        SM.getFileManager().makeAbsolutePath(P);
        llvm::sys::path::remove_dots(P, true);
        return std::string(P.str());
    }
    unsigned lineOf(SourceLocation L)
    {
        L = SM.getExpansionLoc(L);
        return L.isValid() ? SM.getSpellingLineNumber(L) : 0;
    }
    bool inRoot(SourceLocation L)
    {
        std::string f = fileOf(L);
        return !f.empty() && f.compare(0, root.size(), root) == 0 &&
               f.find("/_build/") == std::string::npos;
    }
    std::string rel(const std::string& f)
    {
        if (f.compare(0, root.size(), root) == 0)
            return f.substr(root.size());
        return f;
    }

    std::string recNameOf(const RecordDecl* RD)
    {
        if (!RD)
            return "";
        if (RD->getIdentifier())
            return RD->getQualifiedNameAsString();
        if (auto* TD = RD->getTypedefNameForAnonDecl())
            return TD->getQualifiedNameAsString();
        // anonymous: name it after the enclosing record and the source line
        std::string parent;
        if (auto* P = dyn_cast_or_null<RecordDecl>(RD->getDeclContext()))
            parent = recNameOf(P);
        return parent + "::<anon@" + std::to_string(lineOf(RD->getLocation())) +
               ">";
    }

    static QualType stripPtr(QualType T, int& depth)
    {
        depth = 0;
        T = T.getCanonicalType();
        while (true) {
            if (T->isPointerType() || T->isReferenceType()) {
                T = T->getPointeeType().getCanonicalType();
                ++depth;
            } else if (auto* AT = dyn_cast<ArrayType>(T.getTypePtr())) {
                T = AT->getElementType().getCanonicalType();
                ++depth;
            } else
                break;
        }
        return T;
    }

    void addType(json::Object& O, QualType T)
    {
        if (T.isNull())
            return;
        O["t"] = T.getCanonicalType().getAsString();
        int d = 0;
        QualType B = stripPtr(T, d);
        if (auto* RT = B->getAs<RecordType>()) {
            O["r"] = recNameOf(RT->getDecl());
            noteRecord(RT->getDecl());
        } else if (auto* ET = B->getAs<EnumType>()) {
            O["en"] = ET->getDecl()->getQualifiedNameAsString();
            noteEnum(ET->getDecl());
        }
        if (d)
            O["pd"] = d;
        if (B->isFunctionType())
            O["fnty"] = true;
        // pointer to a vector type: the alignment an access through it assumes (typedef
        // attributes such as aligned(1) of __m256i_u are honoured) and the vector's size
        if (d == 1 && T->isPointerType()) {
            QualType P = T->getPointeeType();
            if (!P.isNull() && !P->isDependentType() && !P->isIncompleteType() && P->isVectorType()) {
                O["vec_align"] = (int64_t)Ctx.getTypeAlignInChars(P).getQuantity();
                O["vec_size"] = (int64_t)Ctx.getTypeSizeInChars(P).getQuantity();
            }
        }
    }

    void noteEnum(const EnumDecl* ED)
    {
        ED = ED->getDefinition();
        if (!ED || !seenEnum.insert(ED).second)
            return;
        if (!inRoot(ED->getLocation()))
            return;
        json::Object O;
        O["name"] = ED->getQualifiedNameAsString();
        O["file"] = rel(fileOf(ED->getLocation()));
        O["line"] = lineOf(ED->getLocation());
        json::Array A;
        for (auto* E : ED->enumerators()) {
            json::Object X;
            X["n"] = E->getNameAsString();
            X["v"] = E->getInitVal().getExtValue();
            A.push_back(std::move(X));
        }
        O["enumerators"] = std::move(A);
        enums.push_back(std::move(O));
    }

    void noteRecord(const RecordDecl* RD)
    {
        RD = RD->getDefinition();
        if (!RD || !seenRec.insert(RD).second)
            return;
        if (!inRoot(RD->getLocation()))
            return;
        if (RD->isInvalidDecl() || RD->isDependentType())
            return;
        json::Object O;
        O["name"] = recNameOf(RD);
        O["file"] = rel(fileOf(RD->getLocation()));
        O["line"] = lineOf(RD->getLocation());
        O["union"] = RD->isUnion();
        const ASTRecordLayout& L = Ctx.getASTRecordLayout(RD);
        O["size"] = (int64_t)L.getSize().getQuantity();
        O["align"] = (int64_t)L.getAlignment().getQuantity();
        json::Array bases;
        if (auto* CRD = dyn_cast<CXXRecordDecl>(RD)) {
            for (auto& B : CRD->bases()) {
                if (auto* BR = B.getType()->getAsCXXRecordDecl()) {
                    json::Object X;
                    X["r"] = recNameOf(BR);
                    if (!B.isVirtual())
                        X["off"] = (int64_t)L.getBaseClassOffset(BR).getQuantity();
                    bases.push_back(std::move(X));
                    noteRecord(BR);
                }
            }
        }
        O["bases"] = std::move(bases);
        json::Array F;
        unsigned i = 0;
        for (auto* FD : RD->fields()) {
            json::Object X;
            X["n"] = FD->getNameAsString();
            addType(X, FD->getType());
            X["off"] = (int64_t)L.getFieldOffset(i);
            QualType FT = FD->getType().getCanonicalType();
            if (!FT->isIncompleteType() && !FT->isDependentType())
                X["size"] = (int64_t)Ctx.getTypeSizeInChars(FT).getQuantity();
            X["ptr"] = FT->isPointerType();
            X["fnptr"] = FT->isFunctionPointerType();
            if (auto* CAT = dyn_cast<ConstantArrayType>(FT.getTypePtr()))
                X["arr"] = (int64_t)CAT->getSize().getZExtValue();
            if (FT->isIncompleteArrayType())
                X["flex"] = true;
            F.push_back(std::move(X));
            ++i;
        }
        O["fields"] = std::move(F);
        records.push_back(std::move(O));
    }

    std::string fnName(const FunctionDecl* FD)
    {
        if (auto* MD = dyn_cast<CXXMethodDecl>(FD)) {
            if (MD->getParent()->isLambda()) {
                std::string p;
                if (auto* PF = dyn_cast_or_null<FunctionDecl>(
                      MD->getParent()->getDeclContext()))
                    p = fnName(PF);
                return p + "::<lambda@" +
                       std::to_string(lineOf(MD->getParent()->getLocation())) +
                       ">";
            }
        }
        return FD->getQualifiedNameAsString();
    }

    int varId(const Decl* D)
    {
        auto it = varIds.find(D);
        if (it != varIds.end())
            return it->second;
        int n = (int)varIds.size() + 1;
        varIds[D] = n;
        return n;
    }

    json::Value other(const Stmt* S)
    {
        json::Object O;
        O["k"] = "other";
        O["cls"] = S->getStmtClassName();
        json::Array K;
        for (const Stmt* C : S->children())
            if (C)
                K.push_back(lower(C));
        O["kids"] = std::move(K);
        return O;
    }

    json::Value lowerVarRef(const ValueDecl* D, QualType T)
    {
        json::Object O;
        if (auto* FD = dyn_cast<FunctionDecl>(D)) {
            O["k"] = "fn";
            O["n"] = fnName(FD);
            return O;
        }
        if (auto* VD = dyn_cast<VarDecl>(D)) {
            if (VD->isLocalVarDeclOrParm() || VD->isStaticLocal()) {
                O["k"] = "var";
                O["n"] = VD->getNameAsString();
                O["id"] = varId(VD);
                if (auto* PD = dyn_cast<ParmVarDecl>(VD))
                    O["p"] = (int64_t)PD->getFunctionScopeIndex();
                if (VD->isStaticLocal())
                    O["static"] = true;
            } else {
                O["k"] = "gvar";
                O["n"] = VD->getQualifiedNameAsString();
            }
            addType(O, VD->getType());
            return O;
        }
        O["k"] = "var";
        O["n"] = D->getNameAsString();
        O["id"] = varId(D);
        addType(O, T);
        return O;
    }

    bool tryConst(const Expr* E, json::Object& O)
    {
        if (E->isValueDependent() || E->isTypeDependent())
            return false;
        QualType T = E->getType();
        if (!(T->isIntegralOrEnumerationType()))
            return false;
        if (E->isGLValue())
            return false;
        Expr::EvalResult R;
        if (!E->EvaluateAsInt(R, Ctx, Expr::SE_NoSideEffects))
            return false;
        if (R.HasSideEffects)
            return false;
        O["k"] = "int";
        llvm::APSInt V = R.Val.getInt();
        if (V.isSigned() || V.getActiveBits() < 63)
            O["v"] = V.getExtValue();
        else
            O["v"] = (int64_t)V.getZExtValue();
        const Expr* I = E->IgnoreParenImpCasts();
        if (auto* DRE = dyn_cast<DeclRefExpr>(I))
            if (auto* EC = dyn_cast<EnumConstantDecl>(DRE->getDecl())) {
                O["e"] = EC->getNameAsString();
                if (auto* ED = dyn_cast<EnumDecl>(EC->getDeclContext())) {
                    O["en"] = ED->getQualifiedNameAsString();
                    noteEnum(ED);
                }
            }
        if (auto* U = dyn_cast<UnaryExprOrTypeTraitExpr>(I)) {
            if (U->getKind() == UETT_SizeOf) {
                QualType AT = U->getTypeOfArgument();
                O["sizeof"] = AT.getCanonicalType().getAsString();
                int d = 0;
                QualType B = stripPtr(AT, d);
                if (!d)
                    if (auto* RT = B->getAs<RecordType>())
                        O["sizeof_r"] = recNameOf(RT->getDecl());
            }
        }
        if (isa<OffsetOfExpr>(I))
            O["offsetof"] = true;
        // names of the named constants a folded expression was built from
        if (!isa<DeclRefExpr>(I) && !isa<IntegerLiteral>(I)) {
            struct NC : RecursiveASTVisitor<NC> {
                json::Array names; unsigned n = 0;
                bool VisitDeclRefExpr(DeclRefExpr* D) {
                    if (n < 8 && (isa<VarDecl>(D->getDecl()) || isa<EnumConstantDecl>(D->getDecl()))) {
                        names.push_back(D->getDecl()->getNameAsString()); ++n;
                    }
                    return true;
                }
            } nc;
            nc.TraverseStmt(const_cast<Expr*>(I));
            if (nc.n)
                O["names"] = std::move(nc.names);
        }
        return true;
    }

    // containerof(P,T,F): (T*)(((char*)(P)) - offsetof(T,F))
    bool tryContainer(const CastExpr* CE, json::Object& O)
    {
        const Expr* S = CE->getSubExpr()->IgnoreParens();
        auto* BO = dyn_cast<BinaryOperator>(S);
        if (!BO || BO->getOpcode() != BO_Sub)
            return false;
        auto* OO = dyn_cast<OffsetOfExpr>(BO->getRHS()->IgnoreParenImpCasts());
        if (!OO || OO->getNumComponents() < 1)
            return false;
        std::string path;
        for (unsigned i = 0; i < OO->getNumComponents(); ++i) {
            auto C = OO->getComponent(i);
            if (C.getKind() != OffsetOfNode::Field)
                return false;
            if (!path.empty())
                path += ".";
            path += C.getField()->getNameAsString();
        }
        const Expr* P = BO->getLHS()->IgnoreParenCasts();
        O["k"] = "container";
        O["e"] = lower(P);
        O["f"] = path;
        QualType T = OO->getTypeSourceInfo()->getType();
        if (auto* RT = T->getAs<RecordType>()) {
            O["rec"] = recNameOf(RT->getDecl());
            noteRecord(RT->getDecl());
        }
        addType(O, CE->getType());
        return true;
    }

    json::Value lowerInitList(const InitListExpr* IL)
    {
        if (IL->isSyntacticForm() && IL->getSemanticForm())
            IL = IL->getSemanticForm();
        json::Object O;
        O["k"] = "init";
        addType(O, IL->getType());
        json::Array E;
        QualType T = IL->getType().getCanonicalType();
        if (auto* RT = T->getAs<RecordType>()) {
            const RecordDecl* RD = RT->getDecl();
            if (RD->isUnion()) {
                if (auto* F = IL->getInitializedFieldInUnion()) {
                    if (IL->getNumInits() > 0) {
                        json::Object X;
                        X["f"] = F->getNameAsString();
                        X["v"] = lower(IL->getInit(0));
                        E.push_back(std::move(X));
                    }
                }
            } else {
                unsigned i = 0;
                if (auto* CRD = dyn_cast<CXXRecordDecl>(RD)) {
                    for (auto& B : CRD->bases()) {
                        if (i >= IL->getNumInits())
                            break;
                        json::Object X;
                        X["base"] = B.getType().getCanonicalType().getAsString();
                        X["v"] = lower(IL->getInit(i++));
                        E.push_back(std::move(X));
                    }
                }
                for (auto* F : RD->fields()) {
                    if (F->isUnnamedBitfield())
                        continue;
                    if (i >= IL->getNumInits())
                        break;
                    json::Object X;
                    X["f"] = F->getNameAsString();
                    X["v"] = lower(IL->getInit(i++));
                    E.push_back(std::move(X));
                }
            }
        } else {
            for (unsigned i = 0; i < IL->getNumInits(); ++i) {
                json::Object X;
                X["i"] = (int64_t)i;
                X["v"] = lower(IL->getInit(i));
                E.push_back(std::move(X));
            }
            if (IL->hasArrayFiller())
                O["filler"] = true;
            if (auto* CAT = dyn_cast<ConstantArrayType>(T.getTypePtr()))
                O["n"] = (int64_t)CAT->getSize().getZExtValue();
        }
        O["elts"] = std::move(E);
        return O;
    }

    json::Value lowerCallee(const CallExpr* CE, json::Object& O)
    {
        const FunctionDecl* FD = CE->getDirectCallee();
        if (FD) {
            O["fn"] = fnName(FD);
            O["externc"] = FD->isExternC();
            O["hasbody"] = FD->hasBody();
            if (auto* FPT = FD->getType()->getAs<FunctionProtoType>())
                O["noexcept"] = FPT->isNothrow();
            else
                O["noexcept"] = false;
            if (FD->getBuiltinID())
                O["builtin"] = true;
            O["std"] = FD->isInStdNamespace() ||
                       FD->getQualifiedNameAsString().rfind("std::", 0) == 0 ||
                       FD->getQualifiedNameAsString().rfind("__gnu_cxx::", 0) == 0;
            O["inroot"] = inRoot(FD->getLocation());
        } else {
            const Expr* C = CE->getCallee();
            O["callee"] = lower(C);
            QualType CT = C->getType();
            if (CT->isPointerType())
                CT = CT->getPointeeType();
            if (auto* FPT = CT->getAs<FunctionProtoType>())
                O["noexcept"] = FPT->isNothrow();
        }
        return nullptr;
    }

    json::Value lower(const Stmt* S)
    {
        if (!S) {
            return nullptr;
        }
        // sub-expressions that are CFG elements of another block were
        // evaluated there
        auto it = elemOf.find(S);
        if (it != elemOf.end() && it->second.first != curBlock && isa<Expr>(S)) {
            json::Object O;
            O["k"] = "ref";
            O["b"] = (int64_t)it->second.first;
            O["i"] = (int64_t)it->second.second;
            return O;
        }
        return lowerNoRef(S);
    }

    json::Value lowerNoRef(const Stmt* S)
    {
        json::Object O;
        if (auto* E = dyn_cast<Expr>(S)) {
            // transparent wrappers
            if (auto* X = dyn_cast<ParenExpr>(E))
                return lower(X->getSubExpr());
            if (auto* X = dyn_cast<FullExpr>(E))
                return lower(X->getSubExpr());
            if (auto* X = dyn_cast<MaterializeTemporaryExpr>(E))
                return lower(X->getSubExpr());
            if (auto* X = dyn_cast<CXXBindTemporaryExpr>(E))
                return lower(X->getSubExpr());
            if (auto* X = dyn_cast<CXXDefaultArgExpr>(E))
                return lower(X->getExpr());
            if (auto* X = dyn_cast<CXXDefaultInitExpr>(E))
                return lower(X->getExpr());
            if (auto* X = dyn_cast<SubstNonTypeTemplateParmExpr>(E))
                return lower(X->getReplacement());
            if (tryConst(E, O))
                return O;
        }
        switch (S->getStmtClass()) {
            case Stmt::IntegerLiteralClass: {
                O["k"] = "int";
                O["v"] = (int64_t)cast<IntegerLiteral>(S)->getValue().getZExtValue();
                return O;
            }
            case Stmt::CharacterLiteralClass: {
                O["k"] = "int";
                O["v"] = (int64_t)cast<CharacterLiteral>(S)->getValue();
                return O;
            }
            case Stmt::FloatingLiteralClass: {
                O["k"] = "float";
                O["v"] = cast<FloatingLiteral>(S)->getValueAsApproximateDouble();
                return O;
            }
            case Stmt::CXXBoolLiteralExprClass: {
                O["k"] = "int";
                O["v"] = (int64_t)cast<CXXBoolLiteralExpr>(S)->getValue();
                return O;
            }
            case Stmt::CXXNullPtrLiteralExprClass:
            case Stmt::GNUNullExprClass: {
                O["k"] = "int";
                O["v"] = 0;
                return O;
            }
            case Stmt::StringLiteralClass: {
                auto* SL = cast<StringLiteral>(S);
                O["k"] = "str";
                std::string b = SL->getBytes().str();
                O["len"] = (int64_t)SL->getByteLength() + 1;
                if (b.size() > 120)
                    b = b.substr(0, 120);
                std::string clean;
                for (unsigned char c : b)
                    clean += (c >= 32 && c < 127) ? (char)c : '?';
                O["v"] = clean;
                return O;
            }
            case Stmt::PredefinedExprClass: {
                O["k"] = "str";
                O["v"] = "__func__";
                O["len"] = 0;
                return O;
            }
            case Stmt::DeclRefExprClass: {
                auto* DRE = cast<DeclRefExpr>(S);
                return lowerVarRef(DRE->getDecl(), DRE->getType());
            }
            case Stmt::CXXThisExprClass: {
                O["k"] = "this";
                addType(O, cast<Expr>(S)->getType());
                return O;
            }
            case Stmt::MemberExprClass: {
                auto* ME = cast<MemberExpr>(S);
                if (auto* MD = dyn_cast<CXXMethodDecl>(ME->getMemberDecl())) {
                    O["k"] = "method";
                    O["n"] = fnName(MD);
                    O["b"] = lower(ME->getBase());
                    return O;
                }
                O["k"] = "mem";
                O["b"] = lower(ME->getBase());
                O["f"] = ME->getMemberDecl()->getNameAsString();
                O["arrow"] = ME->isArrow();
                if (auto* FD = dyn_cast<FieldDecl>(ME->getMemberDecl())) {
                    O["rec"] = recNameOf(FD->getParent());
                    noteRecord(FD->getParent());
                }
                addType(O, ME->getType());
                return O;
            }
            case Stmt::ArraySubscriptExprClass: {
                auto* A = cast<ArraySubscriptExpr>(S);
                O["k"] = "idx";
                O["b"] = lower(A->getBase());
                O["i"] = lower(A->getIdx());
                addType(O, A->getType());
                return O;
            }
            case Stmt::UnaryOperatorClass: {
                auto* U = cast<UnaryOperator>(S);
                if (U->isIncrementDecrementOp()) {
                    O["k"] = "asg";
                    O["op"] = U->isIncrementOp() ? "++" : "--";
                    O["pre"] = U->isPrefix();
                    O["l"] = lower(U->getSubExpr());
                    return O;
                }
                if (U->getOpcode() == UO_Deref) {
                    O["k"] = "deref";
                    O["e"] = lower(U->getSubExpr());
                    addType(O, U->getType());
                    return O;
                }
                if (U->getOpcode() == UO_AddrOf) {
                    O["k"] = "addr";
                    O["e"] = lower(U->getSubExpr());
                    return O;
                }
                if (U->getOpcode() == UO_Extension || U->getOpcode() == UO_Plus)
                    return lower(U->getSubExpr());
                O["k"] = "un";
                O["op"] = UnaryOperator::getOpcodeStr(U->getOpcode()).str();
                O["e"] = lower(U->getSubExpr());
                return O;
            }
            case Stmt::CompoundAssignOperatorClass:
            case Stmt::BinaryOperatorClass: {
                auto* B = cast<BinaryOperator>(S);
                if (B->isAssignmentOp()) {
                    O["k"] = "asg";
                    O["op"] = B->getOpcodeStr().str();
                    O["l"] = lower(B->getLHS());
                    O["r"] = lower(B->getRHS());
                    return O;
                }
                if (B->getOpcode() == BO_Comma) {
                    O["k"] = "comma";
                    O["l"] = lower(B->getLHS());
                    O["r"] = lower(B->getRHS());
                    return O;
                }
                O["k"] = "bin";
                O["op"] = B->getOpcodeStr().str();
                O["l"] = lower(B->getLHS());
                O["r"] = lower(B->getRHS());
                if (B->getType()->isPointerType()) {
                    // type keys must not collide with the operand keys l / r
                    json::Object T;
                    addType(T, B->getType());
                    if (auto pd = T.getInteger("pd"))
                        O["pd"] = *pd;
                    if (auto ts = T.getString("t"))
                        O["ty"] = ts->str();
                    if (auto rs = T.getString("r"))
                        O["rr"] = rs->str();
                }
                return O;
            }
            case Stmt::ConditionalOperatorClass:
            case Stmt::BinaryConditionalOperatorClass: {
                auto* C = cast<AbstractConditionalOperator>(S);
                O["k"] = "cond";
                O["c"] = lower(C->getCond());
                O["t"] = lower(C->getTrueExpr());
                O["f"] = lower(C->getFalseExpr());
                return O;
            }
            case Stmt::ImplicitCastExprClass: {
                auto* C = cast<ImplicitCastExpr>(S);
                switch (C->getCastKind()) {
                    case CK_DerivedToBase:
                    case CK_UncheckedDerivedToBase:
                    case CK_BaseToDerived:
                    case CK_BitCast: {
                        O["k"] = "cast";
                        O["ck"] = C->getCastKindName();
                        O["e"] = lower(C->getSubExpr());
                        addType(O, C->getType());
                        return O;
                    }
                    case CK_IntegralCast: {
                        // only narrowing integer conversions are kept (the value may change)
                        QualType To = C->getType(), From = C->getSubExpr()->getType();
                        if (To->isIntegralOrEnumerationType() && From->isIntegralOrEnumerationType() &&
                            !To->isDependentType() && !From->isDependentType() && !To->isBooleanType() &&
                            Ctx.getIntWidth(To) < Ctx.getIntWidth(From)) {
                            Expr::EvalResult R;
                            if (!C->getSubExpr()->isValueDependent() &&
                                C->getSubExpr()->EvaluateAsInt(R, Ctx, Expr::SE_NoSideEffects))
                                return lower(C->getSubExpr());   // a constant: nothing is lost that the folder does not see
                            O["k"] = "cast";
                            O["ck"] = "IntegralCast";
                            O["narrow"] = true;
                            O["bits"] = (int64_t)Ctx.getIntWidth(To);
                            O["from_bits"] = (int64_t)Ctx.getIntWidth(From);
                            O["uns"] = To->isUnsignedIntegerOrEnumerationType();
                            O["e"] = lower(C->getSubExpr());
                            addType(O, C->getType());
                            return O;
                        }
                        return lower(C->getSubExpr());
                    }
                    default:
                        return lower(C->getSubExpr());
                }
            }
            case Stmt::CStyleCastExprClass:
            case Stmt::CXXStaticCastExprClass:
            case Stmt::CXXReinterpretCastExprClass:
            case Stmt::CXXConstCastExprClass:
            case Stmt::CXXDynamicCastExprClass:
            case Stmt::CXXFunctionalCastExprClass: {
                auto* C = cast<CastExpr>(S);
                if (tryContainer(C, O))
                    return O;
                if (C->getCastKind() == CK_ToVoid)
                    return lower(C->getSubExpr());
                if (C->getCastKind() == CK_ConstructorConversion)
                    return lower(C->getSubExpr());
                O["k"] = "cast";
                O["ck"] = C->getCastKindName();
                O["e"] = lower(C->getSubExpr());
                addType(O, C->getType());
                if (C->getCastKind() == CK_IntegralCast) {
                    QualType To = C->getType(), From = C->getSubExpr()->getType();
                    if (To->isIntegralOrEnumerationType() && From->isIntegralOrEnumerationType() &&
                        !To->isDependentType() && !From->isDependentType() && !To->isBooleanType() &&
                        Ctx.getIntWidth(To) < Ctx.getIntWidth(From)) {
                        O["narrow"] = true;
                        O["bits"] = (int64_t)Ctx.getIntWidth(To);
                        O["from_bits"] = (int64_t)Ctx.getIntWidth(From);
                        O["uns"] = To->isUnsignedIntegerOrEnumerationType();
                    }
                }
                if (isa<CXXDynamicCastExpr>(C))
                    O["dynamic"] = true;
                return O;
            }
            case Stmt::CompoundLiteralExprClass: {
                auto* C = cast<CompoundLiteralExpr>(S);
                json::Value V = lower(C->getInitializer());
                if (auto* VO = V.getAsObject())
                    (*VO)["clit"] = true;
                return V;
            }
            case Stmt::InitListExprClass:
                return lowerInitList(cast<InitListExpr>(S));
            case Stmt::ImplicitValueInitExprClass:
            case Stmt::CXXScalarValueInitExprClass: {
                O["k"] = "zero";
                addType(O, cast<Expr>(S)->getType());
                return O;
            }
            case Stmt::DesignatedInitExprClass:
                return lower(cast<DesignatedInitExpr>(S)->getInit());
            case Stmt::CXXOperatorCallExprClass:
            case Stmt::CXXMemberCallExprClass:
            case Stmt::CallExprClass: {
                auto* CE = cast<CallExpr>(S);
                if (auto* OC0 = dyn_cast<CXXOperatorCallExpr>(CE)) {
                    if (OC0->getOperator() == OO_Equal && OC0->getNumArgs() == 2)
                        if (auto* MD0 = dyn_cast_or_null<CXXMethodDecl>(OC0->getDirectCallee()))
                            if ((MD0->isCopyAssignmentOperator() || MD0->isMoveAssignmentOperator()) &&
                                (MD0->isTrivial() || MD0->isImplicit() || MD0->isDefaulted()) &&
                                !MD0->isInStdNamespace()) {
                                O["k"] = "asg";
                                O["op"] = "=";
                                O["l"] = lower(OC0->getArg(0));
                                O["r"] = lower(OC0->getArg(1));
                                return O;
                            }
                }
                O["k"] = "call";
                lowerCallee(CE, O);
                json::Array A;
                if (auto* MC = dyn_cast<CXXMemberCallExpr>(CE)) {
                    O["method"] = true;
                    if (auto* Obj = MC->getImplicitObjectArgument()) {
                        json::Value TV = lower(Obj);
                        // pass `this` as a pointer
                        if (!Obj->getType()->isPointerType()) {
                            json::Object AD;
                            AD["k"] = "addr";
                            AD["e"] = std::move(TV);
                            A.push_back(std::move(AD));
                        } else
                            A.push_back(std::move(TV));
                    }
                    if (auto* MD = MC->getMethodDecl())
                        if (MD->getParent()->isLambda())
                            O["lambda"] = true;
                }
                if (auto* OC = dyn_cast<CXXOperatorCallExpr>(CE)) {
                    if (auto* MD = dyn_cast_or_null<CXXMethodDecl>(OC->getDirectCallee())) {
                        O["method"] = true;
                        if (MD->getParent()->isLambda())
                            O["lambda"] = true;
                    }
                }
                for (const Expr* Arg : CE->arguments())
                    A.push_back(lower(Arg));
                O["args"] = std::move(A);
                addType(O, CE->getType());
                return O;
            }
            case Stmt::CXXTemporaryObjectExprClass:
            case Stmt::CXXConstructExprClass: {
                auto* C = cast<CXXConstructExpr>(S);
                if (C->isElidable() && C->getNumArgs() == 1)
                    return lower(C->getArg(0));
                auto* CD = C->getConstructor();
                if (CD->isCopyOrMoveConstructor() && CD->isTrivial() &&
                    C->getNumArgs() == 1)
                    return lower(C->getArg(0));
                O["k"] = "construct";
                O["fn"] = fnName(CD);
                if (auto* FPT = CD->getType()->getAs<FunctionProtoType>())
                    O["noexcept"] = FPT->isNothrow();
                O["std"] = CD->isInStdNamespace();
                O["trivial"] = CD->isTrivial();
                O["hasbody"] = CD->hasBody();
                O["inroot"] = inRoot(CD->getLocation());
                json::Array A;
                for (const Expr* Arg : C->arguments())
                    A.push_back(lower(Arg));
                O["args"] = std::move(A);
                addType(O, C->getType());
                return O;
            }
            case Stmt::CXXNewExprClass: {
                auto* N = cast<CXXNewExpr>(S);
                O["k"] = "new";
                addType(O, N->getAllocatedType());
                if (auto* CE = N->getConstructExpr())
                    O["init"] = lowerNoRef(CE);
                else if (N->getInitializer())
                    O["init"] = lower(N->getInitializer());
                return O;
            }
            case Stmt::CXXDeleteExprClass: {
                auto* D = cast<CXXDeleteExpr>(S);
                O["k"] = "delete";
                O["e"] = lower(D->getArgument());
                QualType DT = D->getDestroyedType();
                if (!DT.isNull())
                    if (auto* RD = DT->getAsCXXRecordDecl()) {
                        O["r"] = recNameOf(RD);
                        if (auto* DD = RD->getDestructor())
                            O["dtor"] = fnName(DD);
                    }
                return O;
            }
            case Stmt::CXXThrowExprClass: {
                auto* T = cast<CXXThrowExpr>(S);
                O["k"] = "throw";
                if (T->getSubExpr())
                    O["e"] = lower(T->getSubExpr());
                return O;
            }
            case Stmt::LambdaExprClass: {
                auto* L = cast<LambdaExpr>(S);
                O["k"] = "lambda";
                O["fn"] = fnName(L->getCallOperator());
                return O;
            }
            case Stmt::ReturnStmtClass: {
                auto* R = cast<ReturnStmt>(S);
                O["k"] = "ret";
                if (R->getRetValue())
                    O["e"] = lower(R->getRetValue());
                return O;
            }
            case Stmt::DeclStmtClass: {
                auto* DS = cast<DeclStmt>(S);
                json::Array D;
                for (auto* Dl : DS->decls()) {
                    if (auto* VD = dyn_cast<VarDecl>(Dl)) {
                        json::Object X;
                        X["k"] = "decl";
                        X["var"] = lowerVarRef(VD, VD->getType());
                        if (VD->hasInit())
                            X["init"] = lower(VD->getInit());
                        D.push_back(std::move(X));
                    } else if (auto* RD = dyn_cast<RecordDecl>(Dl)) {
                        noteRecord(RD);
                    }
                }
                O["k"] = "decls";
                O["d"] = std::move(D);
                return O;
            }
            case Stmt::CXXCatchStmtClass: {
                O["k"] = "catch";
                return O;
            }
            case Stmt::UnaryExprOrTypeTraitExprClass:
            case Stmt::OffsetOfExprClass:
                return other(S);
            case Stmt::VAArgExprClass: {
                O["k"] = "other";
                O["cls"] = "VAArgExpr";
                return O;
            }
            default:
                return other(S);
        }
    }

    // ---------------------------------------------------------------------
    // lexical try/throw structure (for the exception-barrier rule)
    struct ExcWalker : RecursiveASTVisitor<ExcWalker>
    {
        Emitter& E;
        json::Array sites, tries;
        std::vector<int> stack;
        int nextTry = 0;
        ExcWalker(Emitter& e)
          : E(e)
        {
        }
        bool shouldVisitImplicitCode() const { return true; }
        bool TraverseLambdaExpr(LambdaExpr*) { return true; } // separate fn
        json::Array stackJson()
        {
            json::Array A;
            for (int t : stack)
                A.push_back(t);
            return A;
        }
        bool TraverseCXXTryStmt(CXXTryStmt* T)
        {
            int id = nextTry++;
            json::Object O;
            O["id"] = id;
            O["line"] = E.lineOf(T->getBeginLoc());
            O["outer"] = stackJson();
            json::Array H;
            for (unsigned i = 0; i < T->getNumHandlers(); ++i) {
                auto* C = T->getHandler(i);
                json::Object X;
                X["all"] = C->getExceptionDecl() == nullptr;
                if (C->getExceptionDecl())
                    X["type"] =
                      C->getCaughtType().getCanonicalType().getAsString();
                // does the handler rethrow (throw; with no operand)?
                struct RT : RecursiveASTVisitor<RT>
                {
                    bool re = false;
                    bool VisitCXXThrowExpr(CXXThrowExpr* T)
                    {
                        if (!T->getSubExpr())
                            re = true;
                        return true;
                    }
                } rt;
                rt.TraverseStmt(C->getHandlerBlock());
                X["rethrows"] = rt.re;
                H.push_back(std::move(X));
            }
            O["handlers"] = std::move(H);
            tries.push_back(std::move(O));
            stack.push_back(id);
            TraverseStmt(T->getTryBlock());
            stack.pop_back();
            for (unsigned i = 0; i < T->getNumHandlers(); ++i)
                TraverseStmt(T->getHandler(i)->getHandlerBlock());
            return true;
        }
        void site(const char* kind, const Stmt* S, json::Object extra)
        {
            extra["kind"] = kind;
            extra["line"] = E.lineOf(S->getBeginLoc());
            extra["tries"] = stackJson();
            sites.push_back(std::move(extra));
        }
        void fnInfo(const FunctionDecl* FD, json::Object& O)
        {
            O["fn"] = E.fnName(FD);
            O["externc"] = FD->isExternC();
            O["hasbody"] = FD->hasBody();
            O["inroot"] = E.inRoot(FD->getLocation());
            if (auto* FPT = FD->getType()->getAs<FunctionProtoType>())
                O["noexcept"] = FPT->isNothrow();
            else
                O["noexcept"] = false;
            std::string q = FD->getQualifiedNameAsString();
            O["std"] = FD->isInStdNamespace() || q.rfind("std::", 0) == 0 ||
                       q.rfind("__gnu_cxx::", 0) == 0;
            if (FD->getBuiltinID())
                O["builtin"] = true;
            O["trivial"] = FD->isTrivial();
        }
        bool VisitCXXThrowExpr(CXXThrowExpr* T)
        {
            json::Object O;
            O["rethrow"] = T->getSubExpr() == nullptr;
            site("throw", T, std::move(O));
            return true;
        }
        bool VisitCallExpr(CallExpr* C)
        {
            json::Object O;
            if (auto* FD = C->getDirectCallee())
                fnInfo(FD, O);
            else {
                O["indirect"] = true;
                const Expr* CE = C->getCallee()->IgnoreParenImpCasts();
                if (auto* ME = dyn_cast<MemberExpr>(CE)) {
                    O["field"] = ME->getMemberDecl()->getNameAsString();
                    if (auto* FD = dyn_cast<FieldDecl>(ME->getMemberDecl())) {
                        O["rec"] = E.recNameOf(FD->getParent());
                        // is the record declared with C language linkage?
                        const DeclContext* DC = FD->getParent()->getDeclContext();
                        bool inC = false;
                        while (DC) {
                            if (auto* LS = dyn_cast<LinkageSpecDecl>(DC))
                                if (LS->getLanguage() == LinkageSpecDecl::lang_c)
                                    inC = true;
                            DC = DC->getParent();
                        }
                        O["rec_externc"] = inC || !E.Ctx.getLangOpts().CPlusPlus;
                    }
                }
                QualType CT = C->getCallee()->getType();
                if (CT->isPointerType())
                    CT = CT->getPointeeType();
                if (auto* FPT = CT->getAs<FunctionProtoType>())
                    O["noexcept"] = FPT->isNothrow();
            }
            site("call", C, std::move(O));
            return true;
        }
        bool VisitCXXConstructExpr(CXXConstructExpr* C)
        {
            json::Object O;
            fnInfo(C->getConstructor(), O);
            site("construct", C, std::move(O));
            return true;
        }
        bool VisitCXXNewExpr(CXXNewExpr* N)
        {
            json::Object O;
            O["fn"] = "operator new";
            O["std"] = true;
            site("new", N, std::move(O));
            return true;
        }
        bool VisitCXXDynamicCastExpr(CXXDynamicCastExpr* D)
        {
            if (D->getType()->isReferenceType()) {
                json::Object O;
                site("dyncast_ref", D, std::move(O));
            }
            return true;
        }
    };

    // ---------------------------------------------------------------------
    void emitFunction(const FunctionDecl* FD)
    {
        if (!FD->doesThisDeclarationHaveABody() || FD->isDependentContext())
            return;
        if (!seenFn.insert(FD->getCanonicalDecl()).second)
            return;
        if (!inRoot(FD->getLocation()))
            return;
        Stmt* Body = FD->getBody();
        if (!Body)
            return;
        varIds.clear();
        elemOf.clear();

        json::Object F;
        F["name"] = fnName(FD);
        F["short"] = FD->getNameAsString();
        F["file"] = rel(fileOf(FD->getLocation()));
        F["line"] = lineOf(FD->getBeginLoc());
        F["end"] = lineOf(FD->getEndLoc());
        F["externc"] = FD->isExternC();
        F["cxx"] = Ctx.getLangOpts().CPlusPlus;
        F["static"] = FD->getStorageClass() == SC_Static ||
                      FD->isInAnonymousNamespace();
        F["variadic"] = FD->isVariadic();
        if (auto* FPT = FD->getType()->getAs<FunctionProtoType>())
            F["noexcept"] = FPT->isNothrow();
        else
            F["noexcept"] = false;
        {
            json::Object R;
            addType(R, FD->getReturnType());
            F["ret"] = std::move(R);
        }
        json::Array P;
        for (auto* PD : FD->parameters()) {
            json::Object X;
            X["n"] = PD->getNameAsString();
            X["id"] = varId(PD);
            addType(X, PD->getType());
            P.push_back(std::move(X));
        }
        F["params"] = std::move(P);
        if (auto* MD = dyn_cast<CXXMethodDecl>(FD)) {
            F["method"] = !MD->isStatic();
            F["record"] = recNameOf(MD->getParent());
            noteRecord(MD->getParent());
            F["ctor"] = isa<CXXConstructorDecl>(MD);
            F["dtor"] = isa<CXXDestructorDecl>(MD);
            F["lambda"] = MD->getParent()->isLambda();
        }

        CFG::BuildOptions BO;
        BO.setAllAlwaysAdd();
        BO.AddInitializers = true;
        BO.AddImplicitDtors = true;
        BO.AddTemporaryDtors = false;
        BO.AddEHEdges = false;
        BO.PruneTriviallyFalseEdges = true;
        std::unique_ptr<CFG> G =
          CFG::buildCFG(FD, Body, &Ctx, BO);
        if (!G) {
            F["nocfg"] = true;
            functions.push_back(std::move(F));
            return;
        }
        ParentMap PM(Body);
        // constructor initializers are not under Body
        if (auto* CD = dyn_cast<CXXConstructorDecl>(FD))
            for (auto* I : CD->inits())
                if (I->getInit())
                    PM.addStmt(I->getInit());

        for (const CFGBlock* B : *G) {
            unsigned idx = 0;
            for (const CFGElement& El : *B) {
                if (auto CS = El.getAs<CFGStmt>())
                    elemOf[CS->getStmt()] = { B->getBlockID(), idx };
                ++idx;
            }
        }
        auto subsumed = [&](const Stmt* S, unsigned blk) {
            const Stmt* P = PM.getParent(S);
            while (P) {
                auto it = elemOf.find(P);
                if (it != elemOf.end() && it->second.first == blk &&
                    (isa<Expr>(P) || isa<DeclStmt>(P) || isa<ReturnStmt>(P)))
                    return true;
                P = PM.getParent(P);
            }
            return false;
        };

        // lexical try blocks: statement -> dispatch block of the innermost
        // enclosing try (clang's CFG has no exceptional edges from calls)
        struct TryInfo { unsigned b, e; int dispatch; };
        std::vector<TryInfo> tryInfos;
        {
            std::map<const Stmt*, int> dispatchOf;
            for (const CFGBlock* B : *G)
                if (const Stmt* T = B->getTerminatorStmt())
                    if (isa<CXXTryStmt>(T))
                        dispatchOf[T] = (int)B->getBlockID();
            struct TC : RecursiveASTVisitor<TC> {
                std::vector<const CXXTryStmt*> v;
                bool VisitCXXTryStmt(CXXTryStmt* T) { v.push_back(T); return true; }
                bool TraverseLambdaExpr(LambdaExpr*) { return true; }
            } tc;
            tc.TraverseStmt(Body);
            for (auto* T : tc.v) {
                auto it = dispatchOf.find(T);
                if (it == dispatchOf.end()) continue;
                SourceLocation b = SM.getExpansionLoc(T->getTryBlock()->getBeginLoc());
                SourceLocation e = SM.getExpansionLoc(T->getTryBlock()->getEndLoc());
                tryInfos.push_back({SM.getFileOffset(b), SM.getFileOffset(e), it->second});
            }
        }
        auto ehOf = [&](const Stmt* S) -> int {
            unsigned o = SM.getFileOffset(SM.getExpansionLoc(S->getBeginLoc()));
            int best = -1; unsigned bestLen = ~0u;
            for (auto& t : tryInfos)
                if (o >= t.b && o <= t.e && (t.e - t.b) < bestLen) { best = t.dispatch; bestLen = t.e - t.b; }
            return best;
        };
        F["entry"] = (int64_t)G->getEntry().getBlockID();
        F["exit"] = (int64_t)G->getExit().getBlockID();
        json::Array Blocks;
        for (const CFGBlock* B : *G) {
            curBlock = B->getBlockID();
            json::Object JB;
            JB["id"] = (int64_t)B->getBlockID();
            json::Array Stmts;
            std::map<const Stmt*, int> rootIdx;
            unsigned cfgIdx = ~0u;
            for (const CFGElement& El : *B) {
                ++cfgIdx;
                if (auto CS = El.getAs<CFGStmt>()) {
                    const Stmt* S = CS->getStmt();
                    if (subsumed(S, curBlock))
                        continue;
                    json::Value V = lowerNoRef(S);
                    auto pushOne = [&](json::Value X) {
                        if (auto* XO = X.getAsObject()) {
                            (*XO)["line"] = lineOf(S->getBeginLoc());
                            (*XO)["ci"] = (int64_t)cfgIdx;
                            int eh = ehOf(S);
                            if (eh >= 0)
                                (*XO)["eh"] = eh;
                            unsigned sl = SM.getSpellingLineNumber(
                              SM.getSpellingLoc(S->getBeginLoc()));
                            if (sl != lineOf(S->getBeginLoc()))
                                (*XO)["sline"] = sl;
                        }
                        Stmts.push_back(std::move(X));
                    };
                    json::Object* VO = V.getAsObject();
                    if (VO && VO->getString("k") &&
                        *VO->getString("k") == "decls") {
                        json::Array* D = VO->getArray("d");
                        if (D)
                            for (auto& X : *D)
                                pushOne(std::move(X));
                        rootIdx[S] = (int)Stmts.size() - 1;
                    } else {
                        pushOne(std::move(V));
                        rootIdx[S] = (int)Stmts.size() - 1;
                    }
                } else if (auto CI = El.getAs<CFGInitializer>()) {
                    const CXXCtorInitializer* I = CI->getInitializer();
                    json::Object X;
                    X["k"] = "cinit";
                    if (I->isAnyMemberInitializer())
                        X["f"] = I->getAnyMember()->getNameAsString();
                    else if (I->isBaseInitializer())
                        X["base"] = QualType(I->getBaseClass(), 0)
                                      .getCanonicalType()
                                      .getAsString();
                    if (I->getInit())
                        X["v"] = lower(I->getInit());
                    X["line"] = lineOf(I->getSourceLocation());
                    Stmts.push_back(std::move(X));
                } else if (auto AD = El.getAs<CFGAutomaticObjDtor>()) {
                    json::Object X;
                    X["k"] = "autodtor";
                    X["var"] = lowerVarRef(AD->getVarDecl(),
                                           AD->getVarDecl()->getType());
                    if (auto* DD = AD->getDestructorDecl(Ctx))
                        X["fn"] = fnName(DD);
                    X["line"] = lineOf(AD->getTriggerStmt()->getEndLoc());
                    Stmts.push_back(std::move(X));
                } else if (auto MDt = El.getAs<CFGMemberDtor>()) {
                    json::Object X;
                    X["k"] = "memberdtor";
                    X["f"] = MDt->getFieldDecl()->getNameAsString();
                    if (auto* DD = MDt->getDestructorDecl(Ctx))
                        X["fn"] = fnName(DD);
                    Stmts.push_back(std::move(X));
                } else if (auto BD = El.getAs<CFGBaseDtor>()) {
                    json::Object X;
                    X["k"] = "basedtor";
                    if (auto* DD = BD->getDestructorDecl(Ctx))
                        X["fn"] = fnName(DD);
                    Stmts.push_back(std::move(X));
                }
            }
            JB["stmts"] = std::move(Stmts);

            // terminator
            const Stmt* T = B->getTerminatorStmt();
            std::string tk = "none";
            if (T) {
                switch (T->getStmtClass()) {
                    case Stmt::IfStmtClass: tk = "if"; break;
                    case Stmt::WhileStmtClass: tk = "while"; break;
                    case Stmt::ForStmtClass: tk = "for"; break;
                    case Stmt::DoStmtClass: tk = "do"; break;
                    case Stmt::SwitchStmtClass: tk = "switch"; break;
                    case Stmt::GotoStmtClass: tk = "goto"; break;
                    case Stmt::BreakStmtClass: tk = "break"; break;
                    case Stmt::ContinueStmtClass: tk = "continue"; break;
                    case Stmt::CXXTryStmtClass: tk = "try"; break;
                    case Stmt::CXXForRangeStmtClass: tk = "for"; break;
                    case Stmt::ConditionalOperatorClass:
                    case Stmt::BinaryConditionalOperatorClass: tk = "cond"; break;
                    case Stmt::BinaryOperatorClass: {
                        auto* BOp = cast<BinaryOperator>(T);
                        tk = BOp->getOpcode() == BO_LAnd ? "and" : "or";
                        break;
                    }
                    default: tk = T->getStmtClassName(); break;
                }
                JB["tline"] = lineOf(T->getBeginLoc());
            }
            JB["term"] = tk;
            if (B->succ_size() > 1 && tk != "try") {
                const Expr* C = B->getLastCondition();
                if (C) {
                    C = C->IgnoreParens();
                    auto it = rootIdx.find(C);
                    if (it != rootIdx.end())
                        JB["cond"] = it->second;
                    else {
                        // look through wrappers for an element of this block
                        const Stmt* X = C;
                        bool found = false;
                        for (auto& kv : rootIdx) {
                            if (auto* E2 = dyn_cast<Expr>(kv.first))
                                if (E2->IgnoreParenImpCasts() ==
                                    cast<Expr>(X)->IgnoreParenImpCasts()) {
                                    JB["cond"] = kv.second;
                                    found = true;
                                    break;
                                }
                        }
                        if (!found)
                            JB["cond_expr"] = lower(C);
                    }
                } else if (const Stmt* TC = B->getTerminatorCondition()) {
                    auto it = rootIdx.find(TC);
                    if (it != rootIdx.end())
                        JB["cond"] = it->second;
                    else
                        JB["cond_expr"] = lower(TC);
                }
            }
            if (tk == "switch") {
                auto* SW = cast<SwitchStmt>(T);
                json::Object X;
                addType(X, SW->getCond()->IgnoreParenImpCasts()->getType());
                bool hasDefault = false;
                for (const SwitchCase* SC = SW->getSwitchCaseList(); SC;
                     SC = SC->getNextSwitchCase())
                    if (isa<DefaultStmt>(SC))
                        hasDefault = true;
                X["has_default"] = hasDefault;
                JB["sw"] = std::move(X);
            }
            json::Array Succs;
            unsigned si = 0;
            for (auto SI = B->succ_begin(); SI != B->succ_end(); ++SI, ++si) {
                json::Object X;
                const CFGBlock* SB = SI->getReachableBlock();
                if (!SB) {
                    X["to"] = nullptr;
                    if (SI->getPossiblyUnreachableBlock())
                        X["pruned"] =
                          (int64_t)SI->getPossiblyUnreachableBlock()->getBlockID();
                } else
                    X["to"] = (int64_t)SB->getBlockID();
                if (tk == "switch" && SB) {
                    const Stmt* L = SB->getLabel();
                    if (auto* CS = dyn_cast_or_null<CaseStmt>(L)) {
                        json::Object CO;
                        if (tryConst(CS->getLHS(), CO))
                            X["case"] = std::move(CO);
                        else
                            X["case"] = lower(CS->getLHS());
                    } else if (L && isa<DefaultStmt>(L))
                        X["default"] = true;
                    else
                        X["default"] = "implicit";
                } else if (tk == "try" && SB) {
                    const Stmt* L = SB->getLabel();
                    if (auto* CS = dyn_cast_or_null<CXXCatchStmt>(L)) {
                        X["catch"] = CS->getExceptionDecl()
                                       ? CS->getCaughtType()
                                           .getCanonicalType()
                                           .getAsString()
                                       : std::string("...");
                    }
                } else if (B->succ_size() == 2) {
                    X["label"] = si == 0 ? "true" : "false";
                }
                Succs.push_back(std::move(X));
            }
            JB["succs"] = std::move(Succs);
            if (const Stmt* L = B->getLabel()) {
                if (auto* LS = dyn_cast<LabelStmt>(L))
                    JB["label"] = LS->getName();
                else if (isa<CXXCatchStmt>(L))
                    JB["label"] = "catch";
            }
            Blocks.push_back(std::move(JB));
        }
        F["blocks"] = std::move(Blocks);

        if (Ctx.getLangOpts().CPlusPlus) {
            ExcWalker W(*this);
            W.TraverseStmt(Body);
            if (auto* CD = dyn_cast<CXXConstructorDecl>(FD))
                for (auto* I : CD->inits())
                    if (I->getInit())
                        W.TraverseStmt(I->getInit());
            F["exc_sites"] = std::move(W.sites);
            F["tries"] = std::move(W.tries);
        }
        functions.push_back(std::move(F));
    }

    void emitGlobal(const VarDecl* VD)
    {
        if (!VD->isFileVarDecl() || !VD->hasInit() || !inRoot(VD->getLocation()))
            return;
        if (VD->isThisDeclarationADefinition() != VarDecl::Definition)
            return;
        varIds.clear();
        elemOf.clear();
        curBlock = ~0u;
        json::Object O;
        O["name"] = VD->getQualifiedNameAsString();
        O["file"] = rel(fileOf(VD->getLocation()));
        O["line"] = lineOf(VD->getLocation());
        addType(O, VD->getType());
        O["init"] = lower(VD->getInit());
        globals.push_back(std::move(O));
    }
};

struct Walker : RecursiveASTVisitor<Walker>
{
    Emitter& E;
    Walker(Emitter& e)
      : E(e)
    {
    }
    bool shouldVisitTemplateInstantiations() const { return true; }
    bool shouldVisitImplicitCode() const { return false; }
    bool VisitFunctionDecl(FunctionDecl* FD)
    {
        E.emitFunction(FD);
        return true;
    }
    bool VisitLambdaExpr(LambdaExpr* L)
    {
        if (auto* CO = L->getCallOperator())
            E.emitFunction(CO);
        return true;
    }
    bool VisitRecordDecl(RecordDecl* RD)
    {
        if (RD->isCompleteDefinition() && E.inRoot(RD->getLocation()))
            E.noteRecord(RD);
        return true;
    }
    bool VisitEnumDecl(EnumDecl* ED)
    {
        if (ED->isCompleteDefinition() && E.inRoot(ED->getLocation()))
            E.noteEnum(ED);
        return true;
    }
    bool VisitVarDecl(VarDecl* VD)
    {
        E.emitGlobal(VD);
        return true;
    }
};

class Consumer : public ASTConsumer
{
    std::string InFile;

  public:
    explicit Consumer(std::string f)
      : InFile(std::move(f))
    {
    }
    void HandleTranslationUnit(ASTContext& Ctx) override
    {
        if (Ctx.getDiagnostics().hasErrorOccurred()) {
            llvm::errs() << "acqfacts: errors in " << InFile << "\n";
        }
        Emitter E(Ctx);
        Walker W(E);
        W.TraverseDecl(Ctx.getTranslationUnitDecl());
        json::Object Top;
        Top["tu"] = E.rel(InFile);
        Top["cxx"] = Ctx.getLangOpts().CPlusPlus;
        Top["errors"] = Ctx.getDiagnostics().hasErrorOccurred();
        Top["functions"] = std::move(E.functions);
        Top["records"] = std::move(E.records);
        Top["enums"] = std::move(E.enums);
        Top["globals"] = std::move(E.globals);
        std::error_code EC;
        llvm::raw_fd_ostream OS(Out, EC);
        if (EC) {
            llvm::errs() << "acqfacts: cannot write " << Out << "\n";
            return;
        }
        OS << json::Value(std::move(Top)) << "\n";
    }
};

class Action : public ASTFrontendAction
{
  public:
    std::unique_ptr<ASTConsumer> CreateASTConsumer(CompilerInstance&,
                                                   StringRef InFile) override
    {
        llvm::SmallString<256> P(InFile);
        llvm::sys::fs::make_absolute(P);
        llvm::sys::path::remove_dots(P, true);
        return std::make_unique<Consumer>(std::string(P.str()));
    }
};

} // namespace

int
main(int argc, const char** argv)
{
    auto Exp = CommonOptionsParser::create(argc, argv, Cat);
    if (!Exp) {
        llvm::errs() << Exp.takeError();
        return 2;
    }
    CommonOptionsParser& OP = Exp.get();
    ClangTool Tool(OP.getCompilations(), OP.getSourcePathList());
    int rc = Tool.run(newFrontendActionFactory<Action>().get());
    return rc;
}
