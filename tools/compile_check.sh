#!/bin/bash
# tools/compile_check.sh <patch>... : does the patched tree still compile (syntax only, real flags)?
for P in "$@"; do
W=$(mktemp -d /var/tmp/acq-cc.XXXXXX)
rsync -a --exclude _build --exclude .git /repo/ $W/repo/
if ! $(dirname $0)/apply_patch.sh $W/repo $P; then echo "NOAPPLY $P"; rm -rf $W; continue; fi
F=$(grep '^+++ ' $P | head -1 | sed 's#^+++ b/##; s#\t.*##')
python3 - "$W/repo" "$F" <<'PY'
import sys, subprocess
sys.path.insert(0,'/verif')
from acq import build
root,f=sys.argv[1],sys.argv[2]
w=build.scratch_dir()
db=build.compile_db(root,w)
import shutil; shutil.rmtree(w,ignore_errors=True)
bad=0
targets=[s for s in db if s.endswith(f)] or list(db)   # header change: compile everything
for src in targets:
    flags=build.clean_args(db[src],src,["-DNO_UNIT_TESTS"])
    r=subprocess.run([flags[0],"-fsyntax-only"]+flags[1:]+[src],capture_output=True,text=True)
    if r.returncode!=0:
        bad+=1; print("  COMPILE ERROR",src.split('/')[-1],r.stderr.strip().splitlines()[:3])
print("compiles" if not bad else "DOES NOT COMPILE", f)
PY
rm -rf $W
done
