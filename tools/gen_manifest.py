#!/usr/bin/env python3
"""Regenerates MANIFEST.json from the table below (kept in one place so the
manifest stays valid while checks are added)."""
import json, os
V = os.path.dirname(os.path.dirname(os.path.abspath(__file__)))
props = [json.loads(l) for l in open(os.path.join(V, 'properties.jsonl'))]
CLAIMED = {
 "C01": ("locks+eqdom", "lockset dataflow + equality-domain dataflow (trace partitioning) + units-of-measure inference over clang CFGs",
         "Every channel function balanced on the lock; every access of a cursor field in any unit under the channel lock; at every empty, error-free return of channel_read_map the reader's cursor provably equals the writer's (equality abstract domain over all path states); readers registered under the lock at the writer's lap; cursor dimensions (lap vs position) never mixed and cursor comparison decides on the lap first. Necessary conditions for all schedules; exact byte sequence across wraps (ring arithmetic) not decided.",
         "constructor/destructor single-threaded; video_sink_bytes_waiting advisory", "3.2, 3.3, 4/C01"),
 "C02": ("locks+paths", "path-sensitive grant dataflow on channel_write_map + encapsulation + lockset + units-of-measure",
         "A region is recorded/handed out only with a grant (no readers, or next_write fits) obtained under the current hold of the lock (cleared by wait/unlock); no function outside channel.c writes channel/reader cursors; cursor accesses locked; slowest reader ordered by (lap, position). Non-overlap arithmetic of the four placement cases not decided.",
         "readers advance only through the channel API; flags equal within one lock hold", "3.1, 3.2, 4/C02"),
 "C10": ("own+paths", "initialise-before-read-modify ownership dataflow + must-pass / pairing rules + table exhaustiveness",
         "Accumulator payload from the reused ring is initialised before the first read-modify on every path; accumulate covers every integer sample type; window-complete edge normalises by 1/count before committing and resets pointer and counter; counter follows accumulate; emitted id is the window's first; reader always unmapped. Float exactness and the end-of-stream race not decided.",
         "channel_write_map memory is indeterminate", "3.1, 3.4, 4/C10"),
 "C17": ("own+locks", "provenance / extent-function dataflow for heap buffers + dominance guards + guarded-by lockset + congruence domain",
         "Every writer into frame_data/render_data is bounded by a shape and extent function not larger than the ones that sized the buffer; set re-sizes on every successful path; rounding helper is round-up to 32; caller-buffer copy dominated by its size test; binning guard dominates the store; buffers only used under im.lock (one recorded known finding); advertised pixel types = rendered ones; clamped shape read back. In-bounds indexing inside bin2/pattern fill not decided.",
         "binning >= 1 (checked) orders full >= reported", "3.2, 3.4, 4/C17"),
 "C03": ("locks", "lockset dataflow + condition-variable discipline over clang CFGs",
         "Every path of every production function: lost-wake-up freedom for the writer's wait (each store to a field its predicate reads is ordered with the check by the channel lock or followed by a lock hand-off before the notify), notify on every path of the release operations, re-check loop. Structural necessary conditions of C03 for all schedules; ring arithmetic (bounded draining) not decided.",
         "trusts pthread_cond_wait's atomic release; lock/field identity by (record, field path); constructors/destructors single-threaded", "3.2, 4/C03"),
 "C04": ("paths", "must-pass / pairing / not-after / loop-until / wiring rules over clang CFGs",
         "Structural necessary conditions only: every private reader map is unmapped on all paths; the source commits nothing after signalling its consumers; the sink's final flush loops until empty; one stream's controllers are wired to one video element and each stop signal resolves its own stream; frame_id is a 0-based counter incremented once per committed frame and the hardware id is the camera's. Bit-exact, ordered, exactly-once delivery under all schedules is NOT decided.",
         "relies on C01/C02 for the channel; client pairs acquire_map_read/unmap_read", "3.1, 4/C04"),
 "C06": ("paths", "dominance / must-pass / loop-until rules over clang CFGs",
         "Structural necessary conditions only: the monitor reader is never mapped unless known unmapped; stop joins all workers in producer order, re-accepts writes, then flushes the monitor until empty; map/unmap/flush use the same channel-reader pair of the same stream. Gap-free fresh sequences under all polling patterns are NOT decided.",
         "relies on C01 ('empty means drained')", "3.1, 4/C06"),
 "C07": ("paths+locks", "must-pass sequences + worker exit/entry flag discipline + condition-variable discipline",
         "Structural necessary conditions only: abort requests stop, refuses writes and fires the trigger for every valid stream before stop; stop joins every created worker; every worker exit clears its flags, stops its device and signals downstream; every start re-initialises the flags before creating the worker; the refused write cannot be lost (C03 rules). Absence of deadlock for all fill levels/schedules is NOT decided.",
         "OS fairness; device stop calls return", "3.1, 3.2, 4/C07"),
 "C08": ("tsim+paths", "typestate simulation of the source/sink controllers over the real HAL and an abstract driver + dominance and ordering rules",
         "Exhaustive over the abstraction for the sequential model: every sequence of configure(same/other device)/start/worker body/destroy with every driver answer: no use after close, one close per open, stop/get_frame/append only after start, worker exit leaves the device stopped, destroy closes; start dominated by the Armed test; append only from the sink worker; shutdown order. Interleavings of the client with live workers are NOT decided.",
         "sequential model: client does not re-configure while a worker is inside a HAL call", "3.3, 4/C08"),
 "C09": ("tsim+paths", "HAL failure summaries by typestate simulation + error-path must-pass / not-after rules",
         "When the driver's get_frame fails the wrapper has stopped the camera, leaves non-Running and returns an error; non-Running append is adopted and reported; from the failure edges in sink and source nothing further is appended/committed and every path signals the peers, unmaps, stops the device and clears the flags; starts re-initialise the stop flags. Whether stop returns with the source blocked on a full ring is NOT decided.",
         "sequential HAL protocol; a driver may answer anything", "3.1, 3.3, 4/C09"),
 "C05": ("tables+congr", "compile-time witnesses + congruence abstract domain + def-use and sibling rules over clang CFGs",
         "_Static_assert witnesses on struct VideoFrame compiled against the real headers; at every frame producer the reserved size is 0 mod 8 (congruence domain through helpers), equals header + bytes_of_image(shape), is the value stored in the size field, and the shape stored is the one that sized it / the camera filled; every consumer steps by the size field only; bytes_of_type covers every SampleType. Necessary conditions; packet boundaries (ring arithmetic) not decided.",
         "camera shape constant between query and frame (run-time); C01 for packet boundaries", "3.5, 3.7, 4/C05"),
 "C12": ("exc+tables", "exception-escape summaries (greatest fixpoint over lexical try/throw structure) + resolved-callee / folded-constant rules + sibling tables + must-pass cleanup",
         "No exception can leave a C entry point of the device manager; selection uses whole-string case-insensitive regex_match with empty-pattern short-circuit, kind filter and first-hit order; driver_id equals the driver slot index on every iteration; describe/open/close/constructor tables partition BasicDeviceKind identically and completely; driver_load releases library and loader on every failure exit. Regex semantics for all strings not decided.",
         "allocation failure out of scope; C functions cannot throw; standard library regex trusted", "3.5, 3.6, 4/C12"),
 "C13": ("own", "ownership dataflow over clang CFGs: shallow-copy aliasing, field coverage, free-then-clear, must-pass stores",
         "Owning fields from the record layout are saved/restored across the whole-object overwrite; every string member and dimension element deep-copied from the same source member on every success path; destroy releases every owning field and clears it; copy_string stores length and terminating NUL on every success path, marks fresh buffers owned, never writes the source. Content equality and dst==src not decided.",
         "allocation failure out of scope; dst and src distinct", "3.4, 4/C13"),
 "C11": ("tsim", "typestate / property simulation (abstract interpretation over finite domains) of the HAL wrappers against an abstract driver",
         "Exhaustive over the abstraction: after open, every finite sequence of the public camera/storage wrappers, each driver slot returning every enumerator of its return type, explored to a fixpoint of (device state x started x closed). Asserts no stop/get_frame/append without a successful start, one close per open, no access to a released device, HAL state follows the driver's answer; every slot NULL-checked at open.",
         "sequential protocol (one thread per device); a closed handle is not reused; integers other than constants are unknown", "3.3, 4/C11"),
 "C14": ("tsim+paths", "typestate simulation of the storage drivers + CFG path/def-use rules + constant agreement",
         "Stale-cursor typestate over all set/start/append/stop cycles of the real drivers; append writes and advances by the same count only on success; the write-all loop advances buffer and offset by each write's result and every cycle makes progress; file:// prefix constants agree; stripped name is stored. Necessary conditions; byte equality of files not decided.",
         "OS pwrite semantics trusted; allocation failure out of scope", "3.3, 4/C14"),
 "C15": ("tsim+tables", "typestate simulation of tiff / tiff-json finalisation + table exhaustiveness and constant agreement",
         "Whenever the device leaves Running its file is closed, frames are followed by the chain terminator before close, nothing open at destroy (top-level and composite writer, failing file ops included); sample-format table exhaustive; header constants agree; iteration by the size field; per-frame tags read the frame being written. File-layout arithmetic not decided.",
         "sequential protocol; allocation failure out of scope", "3.3, 3.5, 4/C15"),
 "C16": ("tsim", "typestate simulation of raw/tiff/tiff-json/trash through the real HAL with nondeterministically failing file operations",
         "Exhaustive over the abstraction for all life-cycle sequences: descriptor typestate per struct file (create needs closed; write/close need open; nothing open at release), a failed write during append leaves the HAL not Running and reports an error, unbounded recursion = re-entry with unchanged abstract state, no access to released objects; plus LOOP-PROGRESS on the platform write-all loop.",
         "sequential protocol; file_close completes; hangs inside the OS and flock not modelled; allocation failure out of scope", "3.3, 4/C16"),
 "C18": ("locks+paths", "lockset / condition-variable discipline + dominance and must-pass rules over clang CFGs",
         "Lost-wake-up freedom and re-check loops for both wait sites of the simulated camera; stop wakes both waiters on every path before joining; the only publish of a frame id is reachable in the streamer loop only through the trigger wait; start resets both counters before thread_create. Necessary conditions; monotonic counting under schedules not decided.",
         "trusts pthread primitives; HAL serialises start/stop/get_frame of one camera", "3.2, 4/C18"),
}
# what later rounds added (kept separate so the original claims stay readable)
ADDED = {
 "C01": (" + linear-relations abstract interpretation (Fourier-Motzkin entailment)",
         " Added: by a linear-relations abstract interpreter over channel.c every cursor store stays in [0, capacity] (inductive), a non-empty slice is exactly [hold position, head) or [hold position, high) with the reader cursor recording its end and lap, the overflow error is raised only for an overrun reader, the hold moves to the next lap only at high, a release moves the hold cursor by exactly the consumed bytes (normalised at high), registration/map/unmap address one valid slot, the reader's mapped/unmapped state follows map/unmap, cursor_cmp is the lexicographic order and reader_min the running minimum over all readers; release operations copy whole cursors (lap and position together)."),
 "C02": (" + linear-relations abstract interpretation (Fourier-Motzkin entailment)",
         " Added: every granting return of next_write is proven to lie in the free space with respect to the slowest reader and inside the buffer, grants need the ring-full test, mapped == beg + nbytes and the result is data + beg, a lap change is recorded as high = old head / lap + 1, write_unmap commits head = mapped, the wrap-everybody loop covers all registered readers."),
 "C04": (" + symbolic evaluation of mapped regions",
         " Added (R-CONSUME): every release in the sink and the filter consumes exactly the bytes handed to storage / walked to exhaustion, measured from the beginning of the most recent mapping; the draining loop hands over whole mappings."),
 "C05": (" + linear lower bounds + linear-relations abstract interpretation",
         " Added: the rounded size covers header + image (round-down is reported); a region is committed only after its header was filled or the write aborted; frame walks return frames exactly while the cursor is below the end."),
 "C06": (" + symbolic evaluation of mapped regions", " Added: the stop-time monitor flush releases whole mappings (R-CONSUME); the channel's reader-side rules."),
 "C03": ("", " Added (R-PLATFORM): the repository's own lock / condition-variable wrappers reach, on every path, the pthread primitive they stand for on the object embedded in their own parameter (wait on the caller's mutex, broadcast not signal)."),
 "C07": ("", " Added: the stop request is stored before the one-shot trigger in abort, also through helpers. Added (R-PLATFORM): lock / condition-variable / thread_create / thread_join / event wrappers forward to the pthread primitive on their own object on every path; a joined handle is marked not live and a created one live; the event flag is set under the mutex before the broadcast."),
 "C08": (" + linear-relations analysis of the identifier comparison", " Added: the identifier comparison helpers are exact and the remembered identifier is updated after every open."),
 "C10": (" + linear-relations abstract interpretation of the per-pixel loops",
         " Added: the window state is empty at every start; the window test is exact; a frame is counted only after it was accumulated; the accumulator is a float image zeroed over its whole payload; every per-pixel loop is 0..npx-1 with the element type of its sample type (R-KERNEL); the whole packet is released only after the walk is exhausted."),
 "C11": ("", " Added: complete state-follows table for the camera wrappers, a failing set stops a running camera, open returns only devices of the right kind with every slot non-NULL, leaks on paths other than the recorded ones have their own keys."),
 "C12": ("", " Added: sizes passed with local character arrays stay within them; default patterns are passed with their own length."),
 "C13": (" + linear-relations abstract interpretation with an allocation ghost",
         " Added (R-STRBUF): copy_string writes only into a live, owned allocation of sufficient capacity and leaves an owned string whose length fits; names are freed only when owned; dimension loops cover 0..size-1; the dimension setter stores every parameter."),
 "C14": (" + linear-relations abstract interpretation of file_write", " Added: a successful set has stored the requested file name; file_write reports success only when cur reached end and every retry makes progress or uses the budget."),
 "C15": (" + linear lower bounds / congruences on the layout expressions",
         " Added (R-TIFF-LAYOUT): per frame the directory, pixel and string sections are ordered, aligned and non-overlapping, tags and bookkeeping agree with the writes, the packet walk ends at the packet's end, metadata goes on the first frame only, the chain terminator is written at the recorded link."),
 "C16": (" + linear-relations abstract interpretation of file_write", " Added: file_write COMPLETE / VARIANT obligations."),
 "C17": ("", " Added (R-SHAPE): strides are the running products of the dims and are recomputed whenever dims are assigned; the full-resolution shape carries the pixel type; the in-place binning loop halves counter, width and height together; close stops the streamer first."),
 "C18": ("", " Added (R-FRESH): a frame is copied out only if strictly newer than the last one and never once the camera was seen stopped; the id is recorded and reported; the streamer advances its counter per publish, consumes the trigger and wakes the waiter. Added (R-PLATFORM): the lock / condition-variable / thread wrappers the camera uses forward to the pthread primitives on their own objects."),
}
ADDED2 = {
 "C01": " Added (R-INDUCT): an inductive invariant with the lap counters as integers - every hold cursor is in the writer's lap at or below head or one lap behind with the pending write below it; a mapped reader's target bounds committed, unconsumed bytes starting at its hold - assumed at the entry of each of the six operations (one abstract state per disjunct, symbolic readers J and K) and proved at every return, with a frame condition per operation (only write_unmap moves head, only the writer's map/abort move mapped, reader operations touch only the caller's slot).",
 "C02": " Added (R-INDUCT): for an arbitrary reader, in whichever lap, the region granted by channel_write_map is disjoint from the bytes that reader has not consumed; the invariant is inductive over all six operations (operation granularity, one lock), so it holds after any history.",
 "C03": " Added: a reader operation that moves a hold cursor without mapping notifies the writer itself (defect repaired); 'empty means drained' and lock coverage of the cursors as in C01.",
 "C04": " Added: the filter commits only a region it mapped itself (R-COMMIT-OWN); the channel's inductive cursor invariant (R-INDUCT).",
 "C06": " Added (R-JOIN-FRESH): a reader registering in a later acquisition is not handed a stopped acquisition's frames - one known finding on the pinned tree; R-INDUCT for the channel.",
 "C07": " Added: whatever a worker maps from its input it releases whole, also once the output refuses writes (R-CONSUME, PAIR).",
 "C09": " Added: the filter's exit never publishes the source's failed reservation (R-COMMIT-OWN).",
 "C10": " Added: kernel selection and element type (width and signedness) per sample type are decided by constant propagation through accumulate for each enumerator, so a dispatch on the sample width is judged by what it computes.",
 "C12": " Added (R-RANGE-REJECT): the driver's describe/open return Device_Ok only for an in-range index as received (64 bits); narrowing conversions are modelled.",
 "C13": " Added: a failing copy_string (allocation failure) leaves the recorded length within the buffer the string still points at.",
 "C14": " Added: every successful set refreshes every member it keeps (R-SET-ADOPTS/stale); file_create empties the file, and only after the exclusive lock is held (R-CREATE).",
 "C15": " Added: every successful set of tiff and tiff-json refreshes every member it keeps - file name, metadata, pixel scale (R-SET-ADOPTS/stale); file_create empties the file (R-CREATE).",
 "C16": " Added (R-CREATE): descriptor typestate over every path of file_create - closed exactly once on failure after a successful open, never on success; nothing destructive before the lock.",
 "C17": " Added (R-BIN2-PITCH): the row pitch of the vectorised binning kernel, in bytes, never exceeds the packed row length (linear upper bound)."
}
ADDED3 = {
 "C03": " A re-check loop nested inside the predicate loop must notice every change of the outer predicate (L-RECHECK / nested).",
 "C04": " The sink is told to stop only after the filter has finished (R-STOP-CHAIN; defect repaired).",
 "C07": " R-STOP-CHAIN: the filter's last frame cannot be committed after the sink's final flush.",
 "C08": " acquire_stop assigns exactly DeviceState_Armed on every path (R-STATE).",
 "C09": " A failing sink refuses further writes on its input and discards what is left in it, in a loop until empty (defects repaired): stop returns with the writer blocked on a full ring, and nothing stale reaches the next acquisition.",
 "C10": " R-STOP-CHAIN: the end-of-stream order filter before sink (defect repaired).",
 "C12": " Nothing but std::regex_match compares the enumerated name in select (no prefix / case-sensitive comparator next to it).",
 "C13": " A live record with owning members is not wiped without releasing them (O-OVERWRITE-OWNED, defect repaired); nothing the destination owns is released before the last read of a string parameter (R-ALIAS-SAFE).",
 "C17": " Vector accesses of the binning kernel assume no more alignment than the buffers' allocator guarantees (R-VEC-ALIGN, defect repaired); the clamp limits are derived after the new settings are stored (R-CLAMP-FRESH).",
 "C18": " HAL-STOP-REACHES: under every driver answer a started camera's stop reaches the driver (camera half of the C11 simulation)."
}
checks = []
for pid, (eng, tech, text, note, ref) in sorted(CLAIMED.items()):
    tech += ADDED.get(pid, ("", ""))[0]
    text += ADDED.get(pid, ("", ""))[1]
    text += ADDED2.get(pid, "")
    text += ADDED3.get(pid, "")
    checks.append({"property_id": pid, "quick_cmd": "./check %s --tier quick" % pid,
                   "thorough_cmd": "./check %s --tier thorough" % pid,
                   "evidence_file": "evidence/%s.json" % pid, "engine": eng, "technique": "static analysis: " + tech,
                   "replay_cmd_template": "cat {path}",
                   "level_claimed": {"category": "other", "text": text, "design_ref": "DESIGN.md " + ref},
                   "level_note": note})
PENDING = "check not yet built in this session (planned rules: DESIGN.md section 4)"
m = {"version": 1, "setup_cmd": "./setup.sh",
     "hooks": {"guard": "ACQUIRE_COMMON_VERIF",
               "enable": "none needed: the checks read the sources as they are; no hooks exist in /repo",
               "baseline_off_cmd": "cmake -G Ninja -S /repo -B /repo/_build -DCMAKE_BUILD_TYPE=RelWithDebInfo && cmake --build /repo/_build -j16 && ctest --test-dir /repo/_build -j4 --timeout 900",
               "source_commits": [], "add_only": True},
     "engines": [
         {"name": "acqfacts", "path": "tools/acqfacts.cc", "serves_properties": [p['id'] for p in props], "kind_free_text": "libTooling extractor: clang CFG of every production function lowered to a JSON mini-IR, records, enums, try/throw structure"},
         {"name": "locks", "path": "acq/locks.py", "serves_properties": ["C01", "C02", "C03", "C17", "C18"], "kind_free_text": "must-held lockset dataflow, guarded-by, condition-variable discipline"},
         {"name": "paths", "path": "acq/paths.py", "serves_properties": ["C04", "C06", "C07", "C09", "C10", "C14", "C18"], "kind_free_text": "must-pass / not-after / dominance / loop rules on CFGs"},
         {"name": "tsim", "path": "acq/tsim.py", "serves_properties": ["C08", "C09", "C11", "C14", "C15", "C16"], "kind_free_text": "typestate / property simulation: abstract interpreter over finite domains with inlining, stubs and ghosts"},
         {"name": "linear", "path": "acq/linear.py", "serves_properties": ["C01", "C02", "C05", "C08", "C10", "C13", "C14", "C15", "C16", "C17"], "kind_free_text": "linear-relations abstract interpreter: linear forms per cell, conjunctions of linear constraints, trace partitioning, Fourier-Motzkin entailment, loop hooks, call models"},
         {"name": "regions", "path": "acq/regions.py", "serves_properties": ["C04", "C06", "C10"], "kind_free_text": "symbolic evaluation of mapped regions (R-CONSUME)"},
         {"name": "tables", "path": "acq/tables.py", "serves_properties": ["C05", "C10", "C12", "C15", "C17"], "kind_free_text": "enum exhaustiveness, sibling tables, constant agreement"}],
     "checks": checks,
     "not_applicable": [{"property_id": p['id'], "reason": PENDING} for p in props if p['id'] not in CLAIMED],
     "notes": "Static analysis only: every verdict is computed from /repo's current sources without executing them. Exit 0 held / 1 VIOLATION / 2 analysis broken (vanished anchor, parse failure, instance count below the frozen minimum)."}
json.dump(m, open(os.path.join(V, 'MANIFEST.json'), 'w'), indent=1)
print("manifest written:", len(checks), "checks")
