#!/usr/bin/env python3
"""Regenerates MANIFEST.json from the table below (kept in one place so the
manifest stays valid while checks are added)."""
import json, os
V = os.path.dirname(os.path.dirname(os.path.abspath(__file__)))
props = [json.loads(l) for l in open(os.path.join(V, 'properties.jsonl'))]
CLAIMED = {
 "C01": ("locks+eqdom", "lockset dataflow + equality-domain dataflow (trace partitioning) + units-of-measure inference over clang CFGs",
         "Every channel function balanced on the lock; every access of a cursor field in any unit under the channel lock; at every empty, error-free return of channel_read_map the reader's cursor provably equals the writer's (equality abstract domain over all path states); readers registered under the lock at the writer's lap; cursor dimensions (lap vs position) never mixed and cursor comparison decides on the lap first. Necessary conditions for all schedules; exact byte sequence across wraps (ring arithmetic) not decided.",
         "constructor/destructor single-threaded; video_sink_bytes_waiting advisory", "3.2, 3.3, 4/C01"),
 "C02": ("locks+paths", "path-sensitive grant dataflow on channel_write_map + encapsulation + lockset + units-of-measure",
         "A region is recorded/handed out only with a grant (no readers, or next_write fits) obtained under the current hold of the lock (cleared by wait/unlock); no function outside channel.c writes channel/reader cursors; cursor accesses locked; slowest reader ordered by (lap, position). Non-overlap arithmetic of the four placement cases not decided.",
         "readers advance only through the channel API; flags equal within one lock hold", "3.1, 3.2, 4/C02"),
 "C10": ("own+paths", "initialise-before-read-modify ownership dataflow + must-pass / pairing rules + table exhaustiveness",
         "Accumulator payload from the reused ring is initialised before the first read-modify on every path; accumulate covers every integer sample type; window-complete edge normalises by 1/count before committing and resets pointer and counter; counter follows accumulate; emitted id is the window's first; reader always unmapped. Float exactness and the end-of-stream race not decided.",
         "channel_write_map memory is indeterminate", "3.1, 3.4, 4/C10"),
 "C17": ("own+locks", "provenance / extent-function dataflow for heap buffers + dominance guards + guarded-by lockset + congruence domain",
         "Every writer into frame_data/render_data is bounded by a shape and extent function not larger than the ones that sized the buffer; set re-sizes on every successful path; rounding helper is round-up to 32; caller-buffer copy dominated by its size test; binning guard dominates the store; buffers only used under im.lock (one recorded known finding); advertised pixel types = rendered ones; clamped shape read back. In-bounds indexing inside bin2/pattern fill not decided.",
         "binning >= 1 (checked) orders full >= reported", "3.2, 3.4, 4/C17"),
 "C03": ("locks", "lockset dataflow + condition-variable discipline over clang CFGs",
         "Every path of every production function: lost-wake-up freedom for the writer's wait (each store to a field its predicate reads is ordered with the check by the channel lock or followed by a lock hand-off before the notify), notify on every path of the release operations, re-check loop. Structural necessary conditions of C03 for all schedules; ring arithmetic (bounded draining) not decided.",
         "trusts pthread_cond_wait's atomic release; lock/field identity by (record, field path); constructors/destructors single-threaded", "3.2, 4/C03"),
 "C05": ("tables+congr", "compile-time witnesses + congruence abstract domain + def-use and sibling rules over clang CFGs",
         "_Static_assert witnesses on struct VideoFrame compiled against the real headers; at every frame producer the reserved size is 0 mod 8 (congruence domain through helpers), equals header + bytes_of_image(shape), is the value stored in the size field, and the shape stored is the one that sized it / the camera filled; every consumer steps by the size field only; bytes_of_type covers every SampleType. Necessary conditions; packet boundaries (ring arithmetic) not decided.",
         "camera shape constant between query and frame (run-time); C01 for packet boundaries", "3.5, 3.7, 4/C05"),
 "C12": ("exc+tables", "exception-escape summaries (greatest fixpoint over lexical try/throw structure) + resolved-callee / folded-constant rules + sibling tables + must-pass cleanup",
         "No exception can leave a C entry point of the device manager; selection uses whole-string case-insensitive regex_match with empty-pattern short-circuit, kind filter and first-hit order; driver_id equals the driver slot index on every iteration; describe/open/close/constructor tables partition BasicDeviceKind identically and completely; driver_load releases library and loader on every failure exit. Regex semantics for all strings not decided.",
         "allocation failure out of scope; C functions cannot throw; standard library regex trusted", "3.5, 3.6, 4/C12"),
 "C13": ("own", "ownership dataflow over clang CFGs: shallow-copy aliasing, field coverage, free-then-clear, must-pass stores",
         "Owning fields from the record layout are saved/restored across the whole-object overwrite; every string member and dimension element deep-copied from the same source member on every success path; destroy releases every owning field and clears it; copy_string stores length and terminating NUL on every success path, marks fresh buffers owned, never writes the source. Content equality and dst==src not decided.",
         "allocation failure out of scope; dst and src distinct", "3.4, 4/C13"),
 "C11": ("tsim", "typestate / property simulation (abstract interpretation over finite domains) of the HAL wrappers against an abstract driver",
         "Exhaustive over the abstraction: after open, every finite sequence of the public camera/storage wrappers, each driver slot returning every enumerator of its return type, explored to a fixpoint of (device state x started x closed). Asserts no stop/get_frame/append without a successful start, one close per open, no access to a released device, HAL state follows the driver's answer; every slot NULL-checked at open.",
         "sequential protocol (one thread per device); a closed handle is not reused; integers other than constants are unknown", "3.3, 4/C11"),
 "C14": ("tsim+paths", "typestate simulation of the storage drivers + CFG path/def-use rules + constant agreement",
         "Stale-cursor typestate over all set/start/append/stop cycles of the real drivers; append writes and advances by the same count only on success; the write-all loop advances buffer and offset by each write's result and every cycle makes progress; file:// prefix constants agree; stripped name is stored. Necessary conditions; byte equality of files not decided.",
         "OS pwrite semantics trusted; allocation failure out of scope", "3.3, 4/C14"),
 "C15": ("tsim+tables", "typestate simulation of tiff / tiff-json finalisation + table exhaustiveness and constant agreement",
         "Whenever the device leaves Running its file is closed, frames are followed by the chain terminator before close, nothing open at destroy (top-level and composite writer, failing file ops included); sample-format table exhaustive; header constants agree; iteration by the size field; per-frame tags read the frame being written. File-layout arithmetic not decided.",
         "sequential protocol; allocation failure out of scope", "3.3, 3.5, 4/C15"),
 "C16": ("tsim", "typestate simulation of raw/tiff/tiff-json/trash through the real HAL with nondeterministically failing file operations",
         "Exhaustive over the abstraction for all life-cycle sequences: descriptor typestate per struct file (create needs closed; write/close need open; nothing open at release), a failed write during append leaves the HAL not Running and reports an error, unbounded recursion = re-entry with unchanged abstract state, no access to released objects; plus LOOP-PROGRESS on the platform write-all loop.",
         "sequential protocol; file_close completes; hangs inside the OS and flock not modelled; allocation failure out of scope", "3.3, 4/C16"),
 "C18": ("locks+paths", "lockset / condition-variable discipline + dominance and must-pass rules over clang CFGs",
         "Lost-wake-up freedom and re-check loops for both wait sites of the simulated camera; stop wakes both waiters on every path before joining; the only publish of a frame id is reachable in the streamer loop only through the trigger wait; start resets both counters before thread_create. Necessary conditions; monotonic counting under schedules not decided.",
         "trusts pthread primitives; HAL serialises start/stop/get_frame of one camera", "3.2, 4/C18"),
}
checks = []
for pid, (eng, tech, text, note, ref) in sorted(CLAIMED.items()):
    checks.append({"property_id": pid, "quick_cmd": "./check %s --tier quick" % pid,
                   "thorough_cmd": "./check %s --tier thorough" % pid,
                   "evidence_file": "evidence/%s.json" % pid, "engine": eng, "technique": "static analysis: " + tech,
                   "replay_cmd_template": "cat {path}",
                   "level_claimed": {"category": "other", "text": text, "design_ref": "DESIGN.md " + ref},
                   "level_note": note})
PENDING = "check not yet built in this session (planned rules: DESIGN.md section 4)"
m = {"version": 1, "setup_cmd": "./setup.sh",
     "hooks": {"guard": "ACQUIRE_COMMON_VERIF",
               "enable": "none needed: the checks read the sources as they are; no hooks exist in /repo",
               "baseline_off_cmd": "cmake -G Ninja -S /repo -B /repo/_build -DCMAKE_BUILD_TYPE=RelWithDebInfo && cmake --build /repo/_build -j16 && ctest --test-dir /repo/_build -j4 --timeout 900",
               "source_commits": [], "add_only": True},
     "engines": [
         {"name": "acqfacts", "path": "tools/acqfacts.cc", "serves_properties": [p['id'] for p in props], "kind_free_text": "libTooling extractor: clang CFG of every production function lowered to a JSON mini-IR, records, enums, try/throw structure"},
         {"name": "locks", "path": "acq/locks.py", "serves_properties": ["C01", "C02", "C03", "C17", "C18"], "kind_free_text": "must-held lockset dataflow, guarded-by, condition-variable discipline"},
         {"name": "paths", "path": "acq/paths.py", "serves_properties": ["C04", "C06", "C07", "C09", "C10", "C14", "C18"], "kind_free_text": "must-pass / not-after / dominance / loop rules on CFGs"},
         {"name": "tsim", "path": "acq/tsim.py", "serves_properties": ["C08", "C09", "C11", "C14", "C15", "C16"], "kind_free_text": "typestate / property simulation: abstract interpreter over finite domains with inlining, stubs and ghosts"},
         {"name": "tables", "path": "acq/tables.py", "serves_properties": ["C05", "C10", "C12", "C15", "C17"], "kind_free_text": "enum exhaustiveness, sibling tables, constant agreement"}],
     "checks": checks,
     "not_applicable": [{"property_id": p['id'], "reason": PENDING} for p in props if p['id'] not in CLAIMED],
     "notes": "Static analysis only: every verdict is computed from /repo's current sources without executing them. Exit 0 held / 1 VIOLATION / 2 analysis broken (vanished anchor, parse failure, instance count below the frozen minimum)."}
json.dump(m, open(os.path.join(V, 'MANIFEST.json'), 'w'), indent=1)
print("manifest written:", len(checks), "checks")
