#!/usr/bin/env python3
"""Writes seeded/<id>/meta.json from the table below, the confirmation logs and seeded/matrix.json."""
import json, os, re
V = os.path.dirname(os.path.dirname(os.path.abspath(__file__)))
T = {
 "C01": ("reader_min passes (position, lap) instead of (lap, position) to cursor_cmp: the slowest reader is chosen by position first",
         "at least two readers, the writer wrapped, one reader in the new lap and another still in the old lap at a higher offset; a write larger than the gap then overwrites the lagging reader's unread bytes"),
 "C02": ("the slowest reader's index is computed once before the while(!next_write) wait loop instead of on every re-check",
         "two lagging readers; while the writer sleeps the slowest one overtakes the other: the writer is handed bytes the other still has mapped"),
 "C03": ("channel_accept_writes stores is_accepting_writes outside the channel lock again",
         "the refusal must land between the writer's check of the predicate and its condition_variable_wait (lost wake-up; acquire_abort hangs in thread_join)"),
 "C04": ("channel_read_map's new-lap hand-out requires head != 0 and no longer stores the hold lap",
         "a ring wrap while the sink reader sits at the end of the old lap, plus a partial release (non-zero write delay): the next map takes the Overflow path and frames are dropped / the acquisition hangs"),
 "C05": ("source.c computes the aligned frame size with a helper twice: once for channel_write_map, once (after camera_get_frame rewrote info.shape) for .bytes_of_frame",
         "the camera's shape shrinks between camera_get_image_shape and camera_get_frame (client reconfigures while the source is blocked in the frame call)"),
 "C06": ("acquire_stop returns early when the cached state is already Armed",
         "a finite acquisition ends by itself, the client calls acquire_get_state (which caches Armed), the monitor reader still has unconsumed frames, then another acquisition starts: stale frames are delivered first"),
 "C07": ("video_source_start no longer clears is_stopping",
         "an acquisition runs to completion, then acquire_abort (sets source.is_stopping with no thread left to clear it), then configure/start: the new source thread exits at once, 0 frames"),
 "C08": ("camera_get_frame no longer calls camera_stop when the driver's get_frame fails (only demotes the state)",
         "the driver's get_frame returns an error during a run: the camera is started but never stopped; a later start double-starts it"),
 "C09": ("video_sink_start no longer clears is_stopping",
         "a storage append fault kills the sink first, the source winds down later and sets sink.is_stopping; the next acquisition's sink thread quits at once and storage receives nothing"),
 "C10": ("the per-window memset of the accumulator runs only once the output ring has wrapped (self->out->cycle > 0)",
         "acquire_abort with an open averaging window (written, never committed), then restart before the 1 GiB ring wrapped: the discarded partial sum is added into the next window"),
 "C11": ("storage_append checks the driver's answer in a local and no longer stores it into self->state",
         "the driver's append answers Armed/AwaitingConfiguration (write fault): the HAL keeps reporting Running, later appends reach a stopped device and stop is delivered twice"),
 "C12": ("DeviceManagerV0::init skips ++driver_id for absent driver libraries (early continue)",
         "an optional driver library missing before one that is present: identifiers point at a null or wrong driver slot"),
 "C13": ("storage_properties_copy keeps dst's dimension array when it is large enough and just lowers size",
         "copy from a source with fewer (but > 0) dimensions into a destination with more, then destroy: the trailing dimension names leak"),
 "C14": ("file_write rewritten with a done counter: the resumed pwrite uses cur+done but the original offset",
         "the OS returns a short write at least once during an append: the tail of the packet overwrites its head, silently"),
 "C15": ("Tiff::append builds the image description as a std::string that contains the user's metadata and passes it as the printf format",
         "a '%' in external_metadata_json: it is interpreted as a conversion (garbage, or a crash for %s/%n)"),
 "C16": ("file_write retries pwrite with `continue` on EINTR/EAGAIN, bypassing the retry budget",
         "a persistent pwrite failure with errno EINTR or EAGAIN: storage_append never returns"),
 "C17": ("simcam_set keeps the existing buffers when reported width, height and pixel type are unchanged (binning not compared)",
         "set (W,H,b0), then set the same W,H with a larger binning, then start: the streamer renders b*W x b*H into the old buffer"),
 "C18": ("simcam_stop fires the software trigger only when triggering is enabled (removing the lock hand-off before notify(frame_ready))",
         "trigger disabled and a get_frame caller between its predicate check and its wait when stop clears is_running: it sleeps forever"),
 "C01b": ("channel_read_unmap always copies the reader cursor's lap into the hold, and only the position depends on full/partial consumption",
          "a partial release (consumed < mapped) of a region in the previous lap: the hold is relabelled with the new lap, the rest of the old lap is skipped"),
 "C02b": ("next_write: the ring-full test is moved after the 'fits before the end of the buffer' case",
          "ring exactly full (head == slowest tail, writer one lap ahead) with room before the end of the buffer: the writer is granted the reader's unread, possibly mapped bytes"),
 "C03b": ("channel_read_unmap notifies the writer only when the releasing reader is (still) the slowest one",
          "two readers, the releasing one overtakes the other while the writer is blocked on the space it just freed: no wake-up, the writer sleeps although it could proceed"),
 "C04b": ("channel_read_unmap stores the hold lap before the full/partial decision (one line moved)",
          "ring wrap while the sink holds the tail of the old lap, released partially because of a write delay: the remaining old-lap frames are never stored"),
 "C05b": ("vfslice_split_at_delay_ms reads bytes_of_frame once from the first frame and steps by that constant",
          "a packet with frames of different sizes (shape change mid-stream) and a non-zero write delay: the split point lands inside a frame"),
 "C06b": ("channel_read_unmap: hold lap := reader lap unconditionally, position by a ternary",
          "monitor client releases part of a region that ends the previous lap: its next map skips / repeats frames"),
 "C07b": ("acquire_abort fires the camera's software trigger before it stores source.is_stopping and refuses writes",
          "camera idle waiting for a trigger, abort pre-empted between the trigger and the flag store for longer than one frame: the source blocks in the next frame call, abort/stop/shutdown hang"),
 "C08b": ("video_source_configure closes the old camera first and assigns self->camera only if the new open succeeds",
          "re-configure to another camera whose open fails: the stale handle is used and later closed a second time"),
 "C09b": ("video_source_start sets is_running = 1 after thread_create",
          "the worker hits a camera failure and finishes before the starter stores the flag: the runtime reports Running for ever"),
 "C10b": ("the averaging window state (accumulator, frame_count) moves from locals of the filter thread into struct video_filter_s, reset only by configure",
          "an acquisition ends with an incomplete window, the next start follows without configure: the first frames are summed into the previous run's committed frame and every window is shifted"),
 "C11b": ("driver_open_device closes the device itself when describe() fails but leaves *out set; camera_open's error path closes it again",
          "a driver whose open() succeeds and describe() fails: two closes of one device, the second after it was released"),
 "C12b": ("DeviceManagerV0::get_driver becomes noexcept and keeps calling drivers_.at()",
          "an identifier with driver_id >= number of slots: std::terminate instead of an error status"),
 "C13b": ("copy_string: memset + memcpy(strnlen(src, nbytes)) instead of memcpy(nbytes) + forced terminator",
          "a source string whose nbytes holds no NUL: the stored string is not NUL-terminated within its recorded length, and copies inherit it"),
 "C14b": ("raw_set returns Armed early when already Armed and strncmp(stored uri, new name, nbytes - 1) == 0 (a prefix test)",
          "re-configure to a path that is a proper prefix of the current one: the new name is ignored, the next acquisition overwrites the earlier file"),
 "C15b": ("Tiff::terminate_ifd_list skips the terminator write when the last link offset equals the one it zeroed last time (never reset in start)",
          "two consecutive acquisitions whose last directory lands at the same offset: the second file's chain is not terminated"),
 "C16b": ("Tiff::stop leaves the state to its caller and side_by_side_tiff_append no longer stores the inner writer's append result",
          "tiff-json running, a pwrite from append fails: the inner writer closes its descriptor but stays Running, the wrapper stops it again: write to and close of a descriptor it no longer owns"),
 "C17b": ("simcam_set skips the buffer re-sizing when reported pixel type, width and height are unchanged (is_same_layout)",
          "same accepted shape, larger binning, then start: the full-resolution render overruns both buffers"),
 "C18b": ("simcam_get_frame replaces 'record id; if (!is_running) goto Shutdown' by 'if (last >= id) goto Shutdown; record id'",
          "trigger enabled, a frame call pending when stop arrives and re-acquiring the lock after the streamer published the frame stop forces out: a frame no trigger asked for is delivered"),
 "C01c": ("channel_read_unmap: hold lap := reader lap unconditionally, position by a ternary (independently re-invented variant of C01b)",
          "writer wrapped, a lagging reader releases the old-lap remainder partially: the hold lands ahead of the writer"),
 "C02c": ("cursor_cmp condensed to `cycle_a < cycle_b || pos_a < pos_b` / `>`: no longer lexicographic",
          "two readers, the first-registered one already in the new lap at a lower offset than a later-registered one still mapped in the old lap: the writer runs into the mapped region"),
 "C03c": ("channel_read_unmap notifies only when the releasing reader is the slowest (decided with reader_min before taking the lock)",
          "two readers release overlappingly while the writer sleeps: the stalled one's release is not announced, the writer blocks for ever"),
 "C04c": ("channel_write_map keeps `high` as a running maximum (`if (high < head) high = head`) at both wrap sites",
          "an acquisition that wraps with one frame size, then one whose laps end at a lower offset: storage receives leftover frames of the earlier acquisition at every wrap"),
 "C05c": ("video_filter_thread's exit commits (`channel_write_unmap(out)`) when `!ecode` instead of when it holds an accumulator",
          "averaging off and a camera fault after the source reserved a frame: the filter's exit publishes the unfilled region to storage and monitor"),
 "C06c": ("acquire_stop returns early when the cached state is Armed (same idea as round-1 C06, re-invented)",
          "finite acquisition ends, client polls acquire_get_state, monitor still holds frames: stale frames after stop and at the head of the next run"),
 "C07c": ("video_source_start no longer clears is_stopping (same as round-1 C07, re-invented)",
          "abort after the source ended by itself, then restart: 0 frames"),
 "C08c": ("video_sink_thread clears is_running / is_stopping before it calls storage_stop",
          "a client that polls the state instead of calling stop re-configures while the worker is still inside the device's stop(): second concurrent stop, set during stop"),
 "C09c": ("video_sink_start no longer clears is_stopping (same as round-1 C09, re-invented)",
          "storage append fault, then another acquisition: nothing stored"),
 "C10c": ("video_filter_thread folds loop and final flush into one do-while that reads the stop flag after the pass",
          "the source commits its last frames and raises the flag while the filter is mid-pass: last window lost, frames leak into the next acquisition"),
 "C11c": ("storage_stop stores the driver's answer only if it is an accepted one",
          "a driver whose stop() answers an unexpected state: the HAL keeps reporting Running, further stops/appends reach a stopped device"),
 "C12c": ("DeviceManagerV0::select caches the compiled regex and stores the pattern string before compiling",
          "a valid selection, then the same malformed pattern twice: the second request selects a device"),
 "C13c": ("storage_dimension_copy does `*dst = *src` and deep-copies the name only when it is non-empty",
          "a dimension whose owned name is the empty string: source and copy share one heap buffer (double free)"),
 "C14c": ("file_write copies `offset` into a const `pos` once and passes `pos` to pwrite (independent re-invention of round-1 C14)",
          "a short write: the rest of the packet is written at the packet's start offset"),
 "C15c": ("tiff: every IFD is written with next = 0 and a new link_ifd() patches the previous IFD afterwards; last_ifd_next_offset_ is not reset by start",
          "two start/stop cycles on one device: the first append of the second file links through the previous acquisition's offset (self-linked chain / corrupted strip)"),
 "C16c": ("Tiff::start's header-write failure path calls stop() (a no-op before the state is Running) instead of file_close",
          "the first pwrite to a new TIFF fails: the descriptor and its flock leak, every later start on that file fails"),
 "C17c": ("simcam_set returns early when binning, shape and sample width are unchanged, skipping im.shape.type",
          "a second set that changes only the pixel type to one of the same width: get() reads back a type that is not in effect"),
 "C18c": ("the streamer leaves right after its trigger wait when is_running is 0, without consuming the trigger stop used to wake it",
          "trigger enabled, stop while the streamer waits, restart: a frame is delivered before any trigger. SUPERSEDED: triaging this seed showed the same hole on the unchanged tree (stop while the streamer is mid-frame); it was repaired in /repo (fix f580176: start clears the trigger) and with that repair this change no longer breaks the property - its demonstration passes on the repaired tree"),
}
# rounds 4 and 5: the tables of DESIGN.md section 9 ( | Seed | Change | Needs to manifest | ... ); round 6: tools/seed_round6.json
for line in open(os.path.join(V, "DESIGN.md"), errors="replace"):
    cells = [c.strip() for c in line.split("|")]
    if len(cells) >= 5 and re.fullmatch(r"C\d\d[a-z]", cells[1] or "") and cells[1] not in T:
        T[cells[1]] = (cells[2].replace("`", ""), cells[3].replace("`", ""))
for rj in ("seed_round6.json", "seed_round7.json", "seed_round8.json", "seed_round9.json"):
    r6 = os.path.join(V, "tools", rj)
    if os.path.exists(r6):
        for k, v in json.load(open(r6)).items():
            T[k] = tuple(v)
SUPERSEDED = {
 "C07e": "SUPERSEDED: since the repair of defect 23 (97a8c70) the source thread waits for the filter before it exits, so once acquire_stop has joined the source no writer is left and re-accepting writes at that point is harmless; the property holds with this change on the repaired tree. The delivered demonstration cannot even set up its scenario there (it waits for the sources to finish while the filter is blocked). R-STOP-SEQ was relaxed accordingly and no longer reports it.",
}
for k, v in SUPERSEDED.items():
    if k in T:
        T[k] = (T[k][0], T[k][1] + " " + v)
mx = {}
mp = os.path.join(V, "seeded", "matrix.json")
if os.path.exists(mp):
    mx = json.load(open(mp))
for pid, (what, needs) in sorted(T.items()):
    d = os.path.join(V, "seeded", pid)
    if not os.path.isdir(d):
        continue
    log = open(os.path.join(d, "confirm.log")).read() if os.path.exists(os.path.join(d, "confirm.log")) else ""
    m = re.search(r"== summary \S+ clean_rc=(\d+) patched_rc=(\d+)", log)
    at = re.search(r"== confirm \S+ at (\w+)", log)
    failed = sorted(set(re.findall(r"- (test-[\w-]+) \(", log)))
    caught = {c: v["rules"] for c, v in mx.get("seeded/%s/patch.diff" % pid, {}).items()
              if isinstance(v, dict) and v.get("rc") == 1}
    oc = os.path.join(d, "own_check.out")
    if not caught and os.path.exists(oc):
        # rounds imported with tools/import_round9.sh: the property's own quick check against the patched copy
        txt = open(oc).read()
        if "VIOLATION property=%s" % pid[:3] in txt:
            caught = {pid[:3]: sorted(set(re.findall(r"finding \[([\w-]+)\]", txt)))}
    meta = {
        "breaks_property": pid[:3],
        "change": what,
        "needs_to_manifest": needs,
        "origin": "written by an independent sub-agent that saw only the property text and a scratch worktree of /repo (nothing from /verif)",
        "files": {"patch": "patch.diff", "demonstration": "demo/run.sh <worktree>", "author_notes": "notes.md"},
        "confirmed": {
            "how": "tools/confirm_seed.sh %s seeded/%s : fresh worktree of /repo HEAD; demo on the unmodified tree, patch applied, demo again, cmake build, ctest of the 30 stable tests (-j3), worktree removed" % (pid, pid),
            "repo_commit": at.group(1) if at else None,
            "demo_rc_unmodified": int(m.group(1)) if m else None,
            "demo_rc_patched": int(m.group(2)) if m else None,
            "ctest_failures_with_patch": failed,
            "note": "only tests from the known-flaky list may appear in ctest_failures_with_patch",
        },
        "caught_by": caught,
    }
    json.dump(meta, open(os.path.join(d, "meta.json"), "w"), indent=1)
    print(pid, meta["confirmed"]["demo_rc_unmodified"], meta["confirmed"]["demo_rc_patched"], failed, sorted(caught))
