#!/usr/bin/env python3
"""Writes seeded/<id>/meta.json from the table below, the confirmation logs and seeded/matrix.json."""
import json, os, re
V = os.path.dirname(os.path.dirname(os.path.abspath(__file__)))
T = {
 "C01": ("reader_min passes (position, lap) instead of (lap, position) to cursor_cmp: the slowest reader is chosen by position first",
         "at least two readers, the writer wrapped, one reader in the new lap and another still in the old lap at a higher offset; a write larger than the gap then overwrites the lagging reader's unread bytes"),
 "C02": ("the slowest reader's index is computed once before the while(!next_write) wait loop instead of on every re-check",
         "two lagging readers; while the writer sleeps the slowest one overtakes the other: the writer is handed bytes the other still has mapped"),
 "C03": ("channel_accept_writes stores is_accepting_writes outside the channel lock again",
         "the refusal must land between the writer's check of the predicate and its condition_variable_wait (lost wake-up; acquire_abort hangs in thread_join)"),
 "C04": ("channel_read_map's new-lap hand-out requires head != 0 and no longer stores the hold lap",
         "a ring wrap while the sink reader sits at the end of the old lap, plus a partial release (non-zero write delay): the next map takes the Overflow path and frames are dropped / the acquisition hangs"),
 "C05": ("source.c computes the aligned frame size with a helper twice: once for channel_write_map, once (after camera_get_frame rewrote info.shape) for .bytes_of_frame",
         "the camera's shape shrinks between camera_get_image_shape and camera_get_frame (client reconfigures while the source is blocked in the frame call)"),
 "C06": ("acquire_stop returns early when the cached state is already Armed",
         "a finite acquisition ends by itself, the client calls acquire_get_state (which caches Armed), the monitor reader still has unconsumed frames, then another acquisition starts: stale frames are delivered first"),
 "C07": ("video_source_start no longer clears is_stopping",
         "an acquisition runs to completion, then acquire_abort (sets source.is_stopping with no thread left to clear it), then configure/start: the new source thread exits at once, 0 frames"),
 "C08": ("camera_get_frame no longer calls camera_stop when the driver's get_frame fails (only demotes the state)",
         "the driver's get_frame returns an error during a run: the camera is started but never stopped; a later start double-starts it"),
 "C09": ("video_sink_start no longer clears is_stopping",
         "a storage append fault kills the sink first, the source winds down later and sets sink.is_stopping; the next acquisition's sink thread quits at once and storage receives nothing"),
 "C10": ("the per-window memset of the accumulator runs only once the output ring has wrapped (self->out->cycle > 0)",
         "acquire_abort with an open averaging window (written, never committed), then restart before the 1 GiB ring wrapped: the discarded partial sum is added into the next window"),
 "C11": ("storage_append checks the driver's answer in a local and no longer stores it into self->state",
         "the driver's append answers Armed/AwaitingConfiguration (write fault): the HAL keeps reporting Running, later appends reach a stopped device and stop is delivered twice"),
 "C12": ("DeviceManagerV0::init skips ++driver_id for absent driver libraries (early continue)",
         "an optional driver library missing before one that is present: identifiers point at a null or wrong driver slot"),
 "C13": ("storage_properties_copy keeps dst's dimension array when it is large enough and just lowers size",
         "copy from a source with fewer (but > 0) dimensions into a destination with more, then destroy: the trailing dimension names leak"),
 "C14": ("file_write rewritten with a done counter: the resumed pwrite uses cur+done but the original offset",
         "the OS returns a short write at least once during an append: the tail of the packet overwrites its head, silently"),
 "C15": ("Tiff::append builds the image description as a std::string that contains the user's metadata and passes it as the printf format",
         "a '%' in external_metadata_json: it is interpreted as a conversion (garbage, or a crash for %s/%n)"),
 "C16": ("file_write retries pwrite with `continue` on EINTR/EAGAIN, bypassing the retry budget",
         "a persistent pwrite failure with errno EINTR or EAGAIN: storage_append never returns"),
 "C17": ("simcam_set keeps the existing buffers when reported width, height and pixel type are unchanged (binning not compared)",
         "set (W,H,b0), then set the same W,H with a larger binning, then start: the streamer renders b*W x b*H into the old buffer"),
 "C18": ("simcam_stop fires the software trigger only when triggering is enabled (removing the lock hand-off before notify(frame_ready))",
         "trigger disabled and a get_frame caller between its predicate check and its wait when stop clears is_running: it sleeps forever"),
}
mx = {}
mp = os.path.join(V, "seeded", "matrix.json")
if os.path.exists(mp):
    mx = json.load(open(mp))
for pid, (what, needs) in sorted(T.items()):
    d = os.path.join(V, "seeded", pid)
    if not os.path.isdir(d):
        continue
    log = open(os.path.join(d, "confirm.log")).read() if os.path.exists(os.path.join(d, "confirm.log")) else ""
    m = re.search(r"== summary \S+ clean_rc=(\d+) patched_rc=(\d+)", log)
    at = re.search(r"== confirm \S+ at (\w+)", log)
    failed = sorted(set(re.findall(r"- (test-[\w-]+) \(", log)))
    caught = {c: v["rules"] for c, v in mx.get("seeded/%s/patch.diff" % pid, {}).items()
              if isinstance(v, dict) and v.get("rc") == 1}
    meta = {
        "breaks_property": pid,
        "change": what,
        "needs_to_manifest": needs,
        "origin": "written by an independent sub-agent that saw only the property text and a scratch worktree of /repo (nothing from /verif)",
        "files": {"patch": "patch.diff", "demonstration": "demo/run.sh <worktree>", "author_notes": "notes.md"},
        "confirmed": {
            "how": "tools/confirm_seed.sh %s seeded/%s : fresh worktree of /repo HEAD; demo on the unmodified tree, patch applied, demo again, cmake build, ctest of the 30 stable tests (-j3), worktree removed" % (pid, pid),
            "repo_commit": at.group(1) if at else None,
            "demo_rc_unmodified": int(m.group(1)) if m else None,
            "demo_rc_patched": int(m.group(2)) if m else None,
            "ctest_failures_with_patch": failed,
            "note": "only tests from the known-flaky list may appear in ctest_failures_with_patch",
        },
        "caught_by": caught,
    }
    json.dump(meta, open(os.path.join(d, "meta.json"), "w"), indent=1)
    print(pid, meta["confirmed"]["demo_rc_unmodified"], meta["confirmed"]["demo_rc_patched"], failed, sorted(caught))
