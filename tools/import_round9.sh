#!/bin/bash
# tools/import_round9.sh <Cxx> : imports /tmp/wt/seed-<Cxx>i/seed into seeded/<Cxx>i, confirms it
# (tools/confirm_seed.sh) and runs the property's own quick check against a scratch copy with the patch.
set -u
P=$1; V=$(cd "$(dirname "$0")/.." && pwd)
SRC=/tmp/wt/seed-${P}i; DST=$V/seeded/${P}i
mkdir -p "$DST"; cp -r "$SRC"/seed/. "$DST"/; cp "$SRC"/PROPERTY.txt "$DST"/property.txt
find "$DST" -name '*.o' -delete; find "$DST" -type f -size +2M -print -delete
git -C /repo worktree remove --force "$SRC"
"$V"/tools/confirm_seed.sh ${P}i "$DST"
( cd "$V" && ACQ_NO_EVIDENCE=1 tools/with_patch.sh "$DST"/patch.diff ./check $P --tier quick ) > "$DST"/own_check.out 2>&1
echo "own check rc=$? :"; grep -E "VIOLATION|BROKEN|finding" "$DST"/own_check.out | head -8
