#!/usr/bin/env python3
"""tools/freeze_expect.py : rebuild mutants/expect.json from seeded/matrix.json.
Per property: the patches its check must keep catching (positive controls of
the thorough tier; greedy cover so that every rule that fired on some patch is
exercised by at least one control, at most CAP patches) and the one control of
the quick tier (the smallest such patch)."""
import json, os
V = os.path.dirname(os.path.dirname(os.path.abspath(__file__)))
CAP = 12
mx = json.load(open(os.path.join(V, "seeded", "matrix.json")))
out = {}
for n in range(1, 19):
    P = "C%02d" % n
    cand = {}
    for patch, row in mx.items():
        if not os.path.exists(os.path.join(V, patch)):
            continue
        v = row.get(P) if isinstance(row, dict) else None
        if isinstance(v, dict) and v.get("rc") == 1 and v.get("rules"):
            cand[patch] = sorted(v["rules"])
    if not cand:
        continue

    def rank(p):
        own = p.startswith("seeded/%s" % P)
        return (0 if own else 1 if p.startswith("mutants/revert") else 2 if p.startswith("seeded/") else 3, p)
    order = sorted(cand, key=rank)
    chosen = [p for p in order if p.startswith("seeded/%s" % P)]
    covered = set(r for p in chosen for r in cand[p])
    allrules = set(r for rs in cand.values() for r in rs)
    while covered != allrules and len(chosen) < CAP:
        best = max((p for p in order if p not in chosen), key=lambda p: (len(set(cand[p]) - covered), -rank(p)[0]), default=None)
        if best is None or not (set(cand[best]) - covered):
            break
        chosen.append(best)
        covered |= set(cand[best])
    for p in order:
        if len(chosen) >= min(CAP, 6):
            break
        if p not in chosen:
            chosen.append(p)

    def size(p):
        try:
            return sum(1 for l in open(os.path.join(V, p), errors="replace") if l[:1] in "+-" and l[:3] not in ("+++", "---"))
        except OSError:
            return 10 ** 6
    quick = min(chosen, key=lambda p: (size(p), p))
    out[P] = {"patches": {p: cand[p] for p in sorted(chosen)}, "quick": quick}
    print(P, len(chosen), "controls; quick:", quick, "| rules covered:", len(covered), "/", len(allrules))
json.dump(out, open(os.path.join(V, "mutants", "expect.json"), "w"), indent=1, sort_keys=True)
