#!/usr/bin/env python3-vt
"""Validate MANIFEST.json and every evidence file against the schemas."""
import json, sys, glob, jsonschema
ok = True
m = json.load(open('/verif/MANIFEST.json'))
jsonschema.validate(m, json.load(open('/root/.vp/MANIFEST.schema.json')))
es = json.load(open('/root/.vp/EVIDENCE.schema.json'))
for c in m['checks']:
    p = '/verif/' + c['evidence_file']
    try:
        jsonschema.validate(json.load(open(p)), es)
    except Exception as e:
        ok = False
        print('BAD', p, str(e)[:300])
ids = {c['property_id'] for c in m['checks']} | {n['property_id'] for n in m.get('not_applicable', [])}
props = {json.loads(l)['id'] for l in open('/verif/properties.jsonl')}
if ids != props:
    ok = False
    print('property coverage mismatch', props ^ ids)
print('valid' if ok else 'INVALID')
sys.exit(0 if ok else 1)
