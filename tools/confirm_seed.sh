#!/bin/bash
# tools/confirm_seed.sh <id> <dir-with-patch.diff-and-demo/>  [--no-ctest]
# Confirms a seeded change in a scratch worktree of /repo HEAD: demo passes
# without the patch, fails with it, project builds, stable tests pass.
# Writes <dir>/confirm.log ; removes the worktree afterwards.
set -u
ID=$1; DIR=$(realpath "$2"); NOCTEST=${3:-}
WT=/tmp/wt/confirm-$ID
LOG=$DIR/confirm.log
STABLE=$(python3 -c "import json;print('|'.join(t.split('::')[0] for t in json.load(open('/root/.vp/BASELINE.json'))['stable_pass']))")
{
echo "== confirm $ID at $(git -C /repo rev-parse --short HEAD) $(date -u +%FT%TZ)"
git -C /repo worktree remove --force $WT 2>/dev/null
git -C /repo worktree add --detach $WT HEAD >/dev/null 2>&1 || { echo "worktree failed"; exit 2; }
echo "-- demo on unmodified tree (expect 0)"
( cd $DIR/demo && timeout 600 bash ./run.sh $WT ) > $DIR/demo_clean.out 2>&1; RC0=$?
tail -3 $DIR/demo_clean.out; echo "rc=$RC0"
echo "-- apply patch"
git -C $WT apply $DIR/patch.diff 2>/dev/null || $(dirname $0)/apply_patch.sh $WT $DIR/patch.diff; echo "apply rc=$?"
echo "-- demo on patched tree (expect non-zero)"
( cd $DIR/demo && timeout 600 bash ./run.sh $WT ) > $DIR/demo_patched.out 2>&1; RC1=$?
tail -3 $DIR/demo_patched.out; echo "rc=$RC1"
echo "-- build"
( cd $WT && cmake -G Ninja -B _build -DCMAKE_BUILD_TYPE=RelWithDebInfo >/dev/null 2>&1 && cmake --build _build -j16 2>&1 | tail -2 ); 
if [ "$NOCTEST" != "--no-ctest" ]; then
echo "-- ctest (stable 30)"
( cd $WT && ctest --test-dir _build -j3 --timeout 900 -R "^($STABLE)\$" 2>&1 | tail -6 )
( cd $WT && ctest --test-dir _build --rerun-failed --timeout 900 2>&1 | tail -4 )
fi
git -C /repo worktree remove --force $WT
echo "== summary $ID clean_rc=$RC0 patched_rc=$RC1"
} > $LOG 2>&1
tail -1 $LOG
