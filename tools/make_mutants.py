#!/usr/bin/env python3
"""Generates the hand-written mutants (mutants/m-*.patch): one realistic
property-breaking edit per rule that has no revert-/seeded control.  Each edit
still compiles.  Expected catches are frozen in mutants/expect.json by
tools/matrix.py + tools/freeze_expect.py."""
import os, subprocess, tempfile, shutil
V = os.path.dirname(os.path.dirname(os.path.abspath(__file__)))
RT = "acquire-video-runtime/src/"
CL = "acquire-core-libs/src/"
DC = "acquire-driver-common/src/"
M = [
 # name, file, old, new
 ("m-lpair-early-return", RT + "runtime/channel.c",
  "    if (self->is_accepting_writes) {\n        self->head = self->mapped;\n    }\n    lock_release(&self->lock);\n}",
  "    if (!self->is_accepting_writes)\n        return;\n    self->head = self->mapped;\n    lock_release(&self->lock);\n}"),
 ("m-lnotify-unmap-silent", RT + "runtime/channel.c",
  "    reader->state = ChannelState_Unmapped;\n    lock_release(&self->lock);\n    condition_variable_notify_all(&self->notify_space_available);",
  "    reader->state = ChannelState_Unmapped;\n    lock_release(&self->lock);\n    if (consumed_bytes)\n        condition_variable_notify_all(&self->notify_space_available);"),
 ("m-register-stale-lap", RT + "runtime/channel.c",
  "    self->holds.cycles[reader->id - 1] = self->cycle;",
  "    self->holds.cycles[reader->id - 1] = 0;"),
 ("m-pair-sink-error-no-unmap", RT + "runtime/sink.c",
  "    self->sig_stop_source(self);\n    channel_read_unmap(&self->in, &self->reader, 0);\n    storage_stop(self->storage);",
  "    self->sig_stop_source(self);\n    storage_stop(self->storage);"),
 ("m-notafter-commit-after-signal", RT + "runtime/source.c",
  "    self->sig_stop_filter(self);\n    self->sig_stop_sink(self);\n\n    ECHO(camera_stop(self->camera));",
  "    self->sig_stop_filter(self);\n    self->sig_stop_sink(self);\n    if (last_stream)\n        channel_write_unmap(last_stream);\n\n    ECHO(camera_stop(self->camera));"),
 ("m-loopuntil-single-flush", RT + "runtime/sink.c",
  "          &self->in, &self->reader, (uint8_t*)slice.end - (uint8_t*)slice.beg);\n    } while (slice.end > slice.beg);\n\n    CHECK(storage_stop",
  "          &self->in, &self->reader, (uint8_t*)slice.end - (uint8_t*)slice.beg);\n    } while (0);\n\n    CHECK(storage_stop"),
 ("m-wiring-cross-stream", RT + "acquire.c",
  "        EXPECT(video_filter_init(\n                 &video->filter, i, 1ULL << 30, &video->sink.in) == Device_Ok,",
  "        EXPECT(video_filter_init(\n                 &video->filter, i, 1ULL << 30, &self->video[0].sink.in) == Device_Ok,"),
 ("m-frameid-double-increment", RT + "runtime/source.c",
  "            if (!sz) {\n                channel_abort_write(channel);\n            } else {",
  "            if (!sz) {\n                channel_abort_write(channel);\n                ++iframe;\n            } else {"),
 ("m-witness-header-field", CL + "acquire-device-properties/device/props/components.h",
  "        size_t bytes_of_frame;\n        struct ImageShape shape;",
  "        uint32_t bytes_of_frame;\n        struct ImageShape shape;"),
 ("m-consume-all-despite-delay", RT + "runtime/sink.c",
  "                               (uint8_t*)remaining.beg - (uint8_t*)slice.beg);",
  "                               (uint8_t*)slice.end - (uint8_t*)slice.beg);"),
 ("m-consume-drain-honours-delay", RT + "runtime/sink.c",
  "        CHECK(storage_append(self->storage, slice.beg, slice.end) == Device_Ok);\n        channel_read_unmap(\n          &self->in, &self->reader, (uint8_t*)slice.end - (uint8_t*)slice.beg);",
  "        struct vfslice rest =\n          vfslice_split_at_delay_ms(&slice, self->write_delay_ms);\n        CHECK(storage_append(self->storage, slice.beg, rest.beg) == Device_Ok);\n        channel_read_unmap(\n          &self->in, &self->reader, (uint8_t*)rest.beg - (uint8_t*)slice.beg);"),
 ("m-consume-filter-break", RT + "runtime/filter.c",
  "                    *accumulator = 0;\n                    channel_abort_write(self->out);\n                }\n            }\n        }",
  "                    *accumulator = 0;\n                    channel_abort_write(self->out);\n                    break;\n                }\n            }\n        }"),
 ("m-consume-monitor-flush-none", RT + "acquire.c",
  "                channel_read_unmap(\n                  &video->sink.in, &video->monitor.reader, nbytes);",
  "                channel_read_unmap(\n                  &video->sink.in, &video->monitor.reader, nbytes / 2);"),
 ("m-step-fixed-stride", RT + "runtime/frame_iterator.c",
  "    it->remaining.beg += cur->bytes_of_frame;",
  "    it->remaining.beg += sizeof(*cur) + bytes_of_image(&cur->shape);"),
 ("m-texh-bytes-of-type", CL + "acquire-device-properties/device/props/components.c",
  "        XXX(SampleType_u14, 2);\n",
  ""),
 ("m-passthrough-other-stream", RT + "acquire.c",
  "    channel_read_unmap(&self->video[istream].sink.in,\n                       &self->video[istream].monitor.reader,",
  "    channel_read_unmap(&self->video[istream].sink.in,\n                       &self->video[0].monitor.reader,"),
 ("m-abort-no-refuse", RT + "acquire.c",
  "        video->source.is_stopping = 1;\n        channel_accept_writes(&video->sink.in, 0);",
  "        video->source.is_stopping = 1;\n        if (video->monitor.reader.id)\n            channel_accept_writes(&video->sink.in, 0);"),
 ("m-threadexit-filter-flag", RT + "runtime/filter.c",
  "    self->is_running = 0;\n    self->is_stopping = 0;\n    return ecode;\nError:\n    ecode = 1;\n    goto Finalize;",
  "    self->is_running = 0;\n    return ecode;\nError:\n    ecode = 1;\n    goto Finalize;"),
 ("m-guarddom-start-unarmed", RT + "runtime/source.c",
  "    EXPECT(camera_get_state(self->camera) == DeviceState_Armed,\n           \"Camera should be armed for stream %d. State is %s.\",\n           self->stream_id,\n           device_state_as_string(camera_get_state(self->camera)));\n",
  ""),
 ("m-shutdown-order", RT + "acquire.c",
  "    device_manager_destroy(&self->device_manager);\n    free(self);\n    return AcquireStatus_Ok;",
  "    free(self);\n    return AcquireStatus_Ok;"),
 ("m-state-ignores-filter", RT + "acquire.c",
  "        is_running |= video->filter.is_running;\n",
  ""),
 ("m-tslots-unchecked", CL + "acquire-device-hal/device/hal/camera.c",
  "    CHECK(self->execute_trigger != NULL);\n",
  ""),
 ("m-sinkerror-no-signal", RT + "runtime/sink.c",
  "    self->sig_stop_source(self);\n    channel_read_unmap(&self->in, &self->reader, 0);",
  "    channel_read_unmap(&self->in, &self->reader, 0);"),
 ("m-sourceerror-continue", RT + "runtime/source.c",
  "            CHECK(camera_get_frame(self->camera, im->data, &sz, &info) ==\n                  Device_Ok);",
  "            if (camera_get_frame(self->camera, im->data, &sz, &info) !=\n                Device_Ok)\n                sz = 0;"),
 ("m-window-no-normalize", RT + "runtime/filter.c",
  "                        normalize(*accumulator,\n                                  *frame_count ? 1.0f / (*frame_count) : 1.0f);\n                        *frame_count = 0;",
  "                        if (self->filter_window_frames > 2)\n                            normalize(*accumulator,\n                                      *frame_count ? 1.0f / (*frame_count) : 1.0f);\n                        *frame_count = 0;"),
 ("m-xbarrier-no-catchall", CL + "acquire-device-hal/device/hal/device.manager.cpp",
  "        memcpy(out, self->get(index), sizeof(*out));\n        return Device_Ok;\n    } catch (std::exception& e) {\n        LOGE(e.what());\n        return Device_Err;\n    } catch (...) {\n        LOGE(\"Unhandled exception\");\n        return Device_Err;\n    }",
  "        memcpy(out, self->get(index), sizeof(*out));\n        return Device_Ok;\n    } catch (std::runtime_error& e) {\n        LOGE(e.what());\n        return Device_Err;\n    }"),
 ("m-select-search", CL + "acquire-device-hal/device/hal/device.manager.cpp",
  "              std::regex_match((const char*)identifier.identifier_.name, re);",
  "              std::regex_search((const char*)identifier.identifier_.name, re);"),
 ("m-select-case-sensitive", CL + "acquire-device-hal/device/hal/device.manager.cpp",
  "                  std::regex_constants::icase | std::regex_constants::optimize);",
  "                  std::regex_constants::optimize);"),
 ("m-tsib-missing-close-case", DC + "basics.driver.c",
  "        case BasicDevice_Storage_Trash:\n        case BasicDevice_Storage_SideBySideTiffJson: {\n            struct Storage* writer = containerof(in, struct Storage, device);",
  "        case BasicDevice_Storage_SideBySideTiffJson: {\n            struct Storage* writer = containerof(in, struct Storage, device);"),
 ("m-load-leak", CL + "acquire-device-hal/device/hal/loader.c",
  "    if (self) {\n        lib_close(&self->lib);\n        free(self);\n    }\n    return 0;",
  "    if (self) {\n        lib_close(&self->lib);\n    }\n    return 0;"),
 ("m-fieldcov-skip-secret", CL + "acquire-device-properties/device/props/storage.c",
  "    CHECK(copy_string(&dst->secret_access_key, &src->secret_access_key));\n",
  ""),
 ("m-freenull-dangling", CL + "acquire-device-properties/device/props/storage.c",
  "        free(self->name.str);\n    }\n\n    memset(self, 0, sizeof(*self)); // NOLINT",
  "        free(self->name.str);\n    }\n"),
 ("m-copystring-no-nul", CL + "acquire-device-properties/device/props/storage.c",
  "    if (dst->nbytes > 0)\n        dst->str[dst->nbytes - 1] = '\\0';\n    return 1;",
  "    return 1;"),
 ("m-appendadvance-unconditional", DC + "storage/raw.c",
  "    CHECK(file_write(&self->file,\n                     self->offset,\n                     (uint8_t*)frames,\n                     ((uint8_t*)frames) + *nbytes));\n    self->offset += *nbytes;",
  "    const int ok = file_write(&self->file,\n                              self->offset,\n                              (uint8_t*)frames,\n                              ((uint8_t*)frames) + *nbytes);\n    self->offset += *nbytes;\n    CHECK(ok);"),
 ("m-tconst-prefix-len", DC + "storage/raw.c",
  "    const size_t offset = strlen(properties->uri.str) >= 7 &&\n                              strncmp(properties->uri.str, \"file://\", 7) == 0\n                            ? 7\n                            : 0;",
  "    const size_t offset = strlen(properties->uri.str) >= 7 &&\n                              strncmp(properties->uri.str, \"file://\", 7) == 0\n                            ? 6\n                            : 0;"),
 ("m-uristrip-length", DC + "storage/raw.c",
  "        storage_properties_set_uri(&self->properties, filename, nbytes);",
  "        storage_properties_set_uri(&self->properties, filename, properties->uri.nbytes);"),
 ("m-tiff-close-before-terminate", DC + "storage/tiff.cpp",
  "        terminate_ifd_list();\n        file_close(&file_);\n        state = DeviceState_Armed;",
  "        if (frame_count_ == 0)\n            terminate_ifd_list();\n        file_close(&file_);\n        state = DeviceState_Armed;"),
 ("m-frametags-first-frame", DC + "storage/tiff.cpp",
  "                  image_width(cur->shape.dims.width),",
  "                  image_width(frames->shape.dims.width),"),
 ("m-tcongr-round-down", DC + "simcams/simulated.camera.c",
  "    return ((n + 31) >> 5) << 5;",
  "    return (n >> 5) << 5;"),
 ("m-readback-skipped", DC + "simcams/simulated.camera.c",
  "    self->properties.shape = (struct camera_properties_shape_s){\n        .x = shape->dims.width,\n        .y = shape->dims.height,\n    };",
  "    if (settings->binning == 1) {\n        self->properties.shape = (struct camera_properties_shape_s){\n            .x = shape->dims.width,\n            .y = shape->dims.height,\n        };\n    }"),
 ("m-stopwakes-no-notify", DC + "simcams/simulated.camera.c",
  "    simcam_execute_trigger(camera);\n    condition_variable_notify_all(&self->im.frame_ready);\n\n    TRACE(\"SIMULATED CAMERA: thread join\");",
  "    simcam_execute_trigger(camera);\n\n    TRACE(\"SIMULATED CAMERA: thread join\");"),
 ("m-triggergate-no-consume", DC + "simcams/simulated.camera.c",
  "        self->software_trigger.triggered = 0;\n\n        // compute the full resolution shape and offset",
  "        // compute the full resolution shape and offset"),
 ("m-restart-keeps-ids", DC + "simcams/simulated.camera.c",
  "    self->im.last_emitted_frame_id = -1;\n    self->im.frame_id = -1;",
  "    self->im.last_emitted_frame_id = -1;"),
 ("m-texh-sample-format", DC + "storage/tiff.cpp",
  "        case SampleType_i8:\n        case SampleType_i16:\n            return tag_t::as_u16(339, 2); // signed",
  "        case SampleType_i16:\n            return tag_t::as_u16(339, 2); // signed"),
 ("m-pixelmask-extra", DC + "simcams/simulated.camera.c",
  "                                 (1ULL << SampleType_f32),",
  "                                 (1ULL << SampleType_f32) |\n                                 (1ULL << SampleType_u12),"),
 ("m-encaps-foreign-write", RT + "runtime/sink.c",
  "    channel_accept_writes(&self->in, 1);\n    self->is_stopping = 0;",
  "    self->in.is_accepting_writes = 1;\n    self->is_stopping = 0;"),
 ("m-dim-mix", RT + "runtime/channel.c",
  "    if (self->head < *pos && *pos == self->high) {",
  "    if (self->head < *pos && *pos == self->cycle) {"),
]


def main():
    os.makedirs(V + "/mutants", exist_ok=True)
    for name, path, old, new in M:
        raw = open("/repo/" + path, "rb").read().decode()
        crlf = "\r\n" in raw
        s = raw.replace("\r\n", "\n")
        if old not in s:
            print("ANCHOR MISSING for", name)
            continue
        t = s.replace(old, new, 1)
        w = tempfile.mkdtemp(dir="/var/tmp")
        for side, txt in (("a", s), ("b", t)):
            os.makedirs(os.path.join(w, side, os.path.dirname(path)))
            open(os.path.join(w, side, path), "wb").write((txt.replace("\n", "\r\n") if crlf else txt).encode())
        r = subprocess.run(["diff", "-u", "--label", "a/" + path, "--label", "b/" + path, "a/" + path, "b/" + path], cwd=w, capture_output=True)
        open(os.path.join(V, "mutants", name + ".patch"), "wb").write(r.stdout)
        shutil.rmtree(w)
    print(len(M), "mutants written")


if __name__ == "__main__":
    main()
