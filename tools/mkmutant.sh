#!/bin/bash
# tools/mkmutant.sh <name> <file-rel-path> <python-expr-transform>  : builds mutants/<name>.patch from an in-place python edit
# usage: tools/mkmutant.sh name path 's.replace("a","b")'
set -e
N=$1; F=$2; E=$3
W=$(mktemp -d /var/tmp/acq-mk.XXXXXX); trap 'rm -rf "$W"' EXIT
mkdir -p $W/a/$(dirname $F) $W/b/$(dirname $F)
cp /repo/$F $W/a/$F; cp /repo/$F $W/b/$F
python3 - "$W/b/$F" "$E" <<'PY'
import sys
p,e=sys.argv[1],sys.argv[2]
s=open(p).read()
t=eval(e)
assert t!=s, "transform changed nothing"
open(p,'w').write(t)
PY
( cd $W && diff -u a/$F b/$F > /verif/mutants/$N.patch ) || true
echo "mutants/$N.patch: $(grep -c '^[-+][^-+]' /verif/mutants/$N.patch) changed lines"
