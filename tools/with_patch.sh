#!/bin/bash
# tools/with_patch.sh <patch> <cmd...> : run cmd with ACQ_REPO pointing at a scratch copy of /repo HEAD's tree + working changes with <patch> applied
set -u
P=$(realpath "$1"); shift
W=$(mktemp -d /var/tmp/acq-mut.XXXXXX)
trap 'rm -rf "$W"' EXIT
rsync -a --exclude _build --exclude .git /repo/ "$W/repo/"
"$(dirname "$0")/apply_patch.sh" "$W/repo" "$P" || { echo "PATCH-DOES-NOT-APPLY"; exit 3; }
ACQ_REPO="$W/repo" "$@"
