#!/usr/bin/env python3
"""tools/autorename.py <file-rel-to-repo> <Cxx,Cyy,...> [--jobs N]
For every function defined in the file: rename all of its parameters and local
variables (x -> x_rn, word-bounded, not after '.' or '->', inside the function's
line range only), apply to a scratch copy, and run the property modules.  A
finding or a lost anchor is a brittleness candidate: a rule that keys on a
variable name.  One rewrite per function."""
import argparse, importlib, os, re, shutil, subprocess, sys, tempfile, time
from multiprocessing import Pool
V = os.path.dirname(os.path.dirname(os.path.abspath(__file__)))
sys.path.insert(0, V)
_W = {}


def _init():
    w = tempfile.mkdtemp(prefix="acq-rn.", dir="/var/tmp")
    subprocess.run(["rsync", "-a", "--exclude", "_build", "--exclude", ".git", "/repo/", w + "/repo/"], check=True)
    _W["dir"] = w
    import atexit
    atexit.register(lambda: shutil.rmtree(w, ignore_errors=True))


def _run(job):
    rel, fname, lo, hi, names, props = job
    from acq import build, report
    from acq.check import Context
    w = _W["dir"]
    path = os.path.join(w, "repo", rel)
    orig = open(path, "rb").read()
    lines = orig.decode().splitlines(keepends=True)
    pat = re.compile(r"(?<![\w.>])(%s)\b(?!\s*\()" % "|".join(sorted(map(re.escape, names), key=len, reverse=True)))
    for k in range(lo - 1, min(hi, len(lines))):
        if lines[k].lstrip().startswith("#"):
            continue
        # keep string literals untouched
        parts = re.split(r'("(?:[^"\\]|\\.)*")', lines[k])
        lines[k] = "".join(p if p.startswith('"') else pat.sub(lambda m: m.group(1) + "_rn", p) for p in parts)
    open(path, "wb").write("".join(lines).encode())
    verdict, by = "SILENT", []
    try:
        known = {(k["property"], k["key"]) for k in report.load_known() if k.get("status") == "known"}
        ctx = Context("quick", root=os.path.join(w, "repo"))
        try:
            ctx.program()
        except build.AnalysisBroken as e:
            return (fname, "NOCOMPILE", [str(e)[:100]])
        for pid in props:
            mod = importlib.import_module("acq.props." + pid.lower())
            res = report.Result(pid)
            try:
                mod.run(ctx, res)
            except build.AnalysisBroken as e:
                by.append("%s:BROKEN(%s)" % (pid, str(e)[:70])); verdict = "ALARM"; continue
            except Exception as e:
                by.append("%s:CRASH(%s)" % (pid, repr(e)[:80])); verdict = "ALARM"; continue
            if res.deferred_broken:
                by.append("%s:BROKEN(%s)" % (pid, res.deferred_broken[0][:70])); verdict = "ALARM"
            new = sorted({f.rule for f in res.findings if (pid, f.key) not in known})
            if new:
                verdict = "ALARM"; by.append("%s:%s" % (pid, ",".join(new)))
    finally:
        open(path, "wb").write(orig)
    return (fname, verdict, by)


def main():
    ap = argparse.ArgumentParser()
    ap.add_argument("file"); ap.add_argument("props"); ap.add_argument("--jobs", type=int, default=6)
    a = ap.parse_args()
    os.environ["ACQ_NO_EVIDENCE"] = "1"; os.environ["ACQ_NO_CONTROLS"] = "1"
    from acq.check import Context
    from acq import ir
    prog = Context("quick").program()
    jobs = []
    for f in prog.all_funcs():
        if not f.file.endswith(a.file) or not f.blocks or f.d.get("lambda"):
            continue
        names = {p["n"] for p in f.params if p.get("n")}
        for b, i, s in f.all_stmts():
            for y in ir.walk(s):
                if isinstance(y, dict) and y.get("k") == "var" and "p" not in y and y.get("n"):
                    names.add(y["n"])
        names = {n for n in names if re.fullmatch(r"[A-Za-z_]\w*", n) and n not in ("this",)}
        if names:
            jobs.append((a.file, f.name, f.line, f.end, sorted(names), a.props.split(",")))
    t0 = time.time()
    with Pool(a.jobs, initializer=_init) as pool:
        for r in pool.imap_unordered(_run, jobs):
            if r[1] != "SILENT":
                print("%-9s %-40s %s" % (r[1], r[0][-40:], " ".join(r[2])[:200]), flush=True)
    print("== %s: %d functions renamed (%.0f s)" % (a.file, len(jobs), time.time() - t0))


if __name__ == "__main__":
    main()
