#!/bin/bash
# tools/import_seed.sh <NN> [suffix=d] : copies /tmp/wt/s4-C<NN>/SEED into seeded/C<NN><suffix>/ (round-4 seeds)
set -eu
N=$1; S=${2:-d}; R=${3:-s4}
SRC=/tmp/wt/$R-C$N/SEED
DST=$(dirname "$0")/../seeded/C$N$S
mkdir -p "$DST"
cp -r "$SRC"/. "$DST"/
cp /tmp/wt/$R-C$N/PROPERTY.txt "$DST"/property.txt
find "$DST" -name '*.o' -delete; find "$DST" -type f -size +2M -print -delete
ls "$DST"
