#!/usr/bin/env python3
"""tools/autorefactor.py <file-rel-to-repo> <first-line> <last-line> <Cxx,Cyy,...> [--out FILE] [--jobs N] [--max N]

The mirror image of automutate.py: generates *behaviour-preserving* single-line
rewrites (comparison operands swapped with the operator mirrored, `x += y` as
`x = x + y`, `++x;` as `x += 1;`, `a + b` as `b + a` for simple operands) and
lists every rewrite on which a property module raises a finding or loses an
anchor: those are brittleness candidates (false alarms in waiting).

(original automutate docstring follows)
tools/automutate.py <file-rel-to-repo> <first-line> <last-line> <Cxx,Cyy,...> [--out FILE] [--jobs N] [--max N]

Mutation analysis of the *checkers*: generates first-order mutants of a source
range (relational / logical / arithmetic operator swaps, constant flips,
statement deletion), applies each to a private scratch copy of /repo and runs
the given property modules in-process (one fact extraction per mutant).  A
mutant is KILLED if a module reports a finding that is not a known finding,
INVALID if the tree no longer parses or an anchor vanished (analysis broken),
SURVIVED otherwise.  Survivors are the blind-spot candidates to triage by hand
(many are equivalent or harmless).  Sensitivity tooling only - nothing here is
registered in MANIFEST.json."""
import argparse, importlib, json, os, re, shutil, subprocess, sys, tempfile, time
from multiprocessing import Pool

V = os.path.dirname(os.path.dirname(os.path.abspath(__file__)))
sys.path.insert(0, V)

REL = [(" < ", " <= "), (" <= ", " < "), (" > ", " >= "), (" >= ", " > "), (" == ", " != "), (" != ", " == ")]
LOG = [(" && ", " || "), (" || ", " && ")]
ARI = [(" + ", " - "), (" - ", " + "), (" + 1", ""), (" - 1", "")]
CON = [(" = 1;", " = 0;"), (" = 0;", " = 1;")]
SKIP = re.compile(r"^\s*(//|/\*|\*|#|LOG|LOGE|TRACE|EXPECT\(|\"|\})")
STMT = re.compile(r"^\s+[A-Za-z_*(+\-].*;\s*$")
NOSTMT = re.compile(r"^\s*(return|goto|break|continue|struct|const|size_t|uint\d+_t|int|float|double|char|enum|static|unsigned|void|uint8_t\*)\b")


OPND = r"((?:\*|&)?[A-Za-z_][A-Za-z_0-9]*(?:(?:->|\.)[A-Za-z_][A-Za-z_0-9]*|\[[A-Za-z_0-9 +\-]*\])*|\d+)"
MIRROR = {"<": ">", "<=": ">=", ">": "<", ">=": "<=", "==": "==", "!=": "!="}


def mutants(lines, lo, hi):
    out = []
    cmp_re = re.compile(r"(?<![\w\]\)>\.])" + OPND + r" (<=|>=|==|!=|<|>) " + OPND + r"(?![\w\[\(\.]|->| [\*/+\-%])")
    add_re = re.compile(r"^(\s+)([A-Za-z_\*][\w\->\.\[\]\*]*) \+= ([^;]+);(\s*)$")
    inc_re = re.compile(r"^(\s+)(?:\+\+([A-Za-z_\*][\w\->\.\[\]\*]*)|([A-Za-z_\*][\w\->\.\[\]\*]*)\+\+);(\s*)$")
    for ln in range(lo - 1, min(hi, len(lines))):
        l = lines[ln]
        if SKIP.match(l) or not l.strip() or "#" in l[:l.find(l.strip()[:1]) + 1]:
            continue
        for k, m in enumerate(cmp_re.finditer(l)):
            a, op, b = m.group(1), m.group(2), m.group(3)
            pre = l[:m.start()]
            # only inside a parenthesised condition / return, not in for-headers' declarations
            if "for (" in pre and pre.count(";") == 0:
                continue
            if pre.rstrip().endswith(("-", "+", "*", "/", "%", "<<", ">>")):
                continue
            out.append((ln + 1, "flip:%s#%d" % (op, k), l[:m.start()] + "%s %s %s" % (b, MIRROR[op], a) + l[m.end():]))
        m = add_re.match(l)
        if m and "(" not in m.group(3):
            out.append((ln + 1, "expand+=", "%s%s = %s + %s;%s" % (m.group(1), m.group(2), m.group(2), m.group(3), m.group(4))))
        m = inc_re.match(l)
        if m:
            v = m.group(2) or m.group(3)
            out.append((ln + 1, "inc->+=1", "%s%s += 1;%s" % (m.group(1), v, m.group(4))))
    # swap two adjacent independent plain stores
    st_re = re.compile(r"^(\s+)([A-Za-z_\*][\w\->\.\[\]\*]*) = ([^;()]+);\s*$")
    for ln in range(lo - 1, min(hi, len(lines)) - 1):
        a, b = st_re.match(lines[ln]), st_re.match(lines[ln + 1])
        if not a or not b or a.group(1) != b.group(1):
            continue
        la, ra, lb, rb = a.group(2), a.group(3), b.group(2), b.group(3)
        if la == lb or re.search(r"\b%s\b" % re.escape(la.lstrip("*")), rb) or re.search(r"\b%s\b" % re.escape(lb.lstrip("*")), ra):
            continue
        if la.startswith("*") or lb.startswith("*") or "[" in la + lb:
            continue   # possible aliasing
        out.append((ln + 1, "swap-with-next", ("SWAP", lines[ln + 1], lines[ln])))
    return out


_W = {}


def _init():
    w = tempfile.mkdtemp(prefix="acq-am.", dir="/var/tmp")
    subprocess.run(["rsync", "-a", "--exclude", "_build", "--exclude", ".git", "/repo/", w + "/repo/"], check=True)
    _W["dir"] = w
    import atexit
    atexit.register(lambda: shutil.rmtree(w, ignore_errors=True))


def _run(job):
    rel, ln, tag, newline, props = job
    from acq import build, report
    from acq.check import Context
    w = _W["dir"]
    path = os.path.join(w, "repo", rel)
    orig = open(path, "rb").read()
    lines = orig.decode().splitlines(keepends=True)
    old = lines[ln - 1]
    if isinstance(newline, tuple) and newline[0] == "SWAP":
        lines[ln - 1], lines[ln] = newline[1], newline[2]
        newline = newline[1].strip() + " <-> " + newline[2].strip()
    else:
        lines[ln - 1] = newline if newline.endswith("\n") else newline + ("\r\n" if old.endswith("\r\n") else "\n")
    open(path, "wb").write("".join(lines).encode())
    verdict = "SURVIVED"
    by = []
    try:
        known = {(k["property"], k["key"]) for k in report.load_known() if k.get("status") == "known"}
        ctx = Context("quick", root=os.path.join(w, "repo"))
        try:
            ctx.program()
        except build.AnalysisBroken as e:
            return (ln, tag, "INVALID", ["extract: %s" % str(e)[:80]], old.strip(), newline.strip())
        for pid in props:
            mod = importlib.import_module("acq.props." + pid.lower())
            res = report.Result(pid)
            try:
                mod.run(ctx, res)
            except build.AnalysisBroken as e:
                by.append("%s:BROKEN(%s)" % (pid, str(e)[:60]))
                if verdict == "SURVIVED":
                    verdict = "INVALID"
                continue
            except Exception as e:  # checker crash: report loudly
                by.append("%s:CRASH(%s)" % (pid, repr(e)[:80]))
                verdict = "CRASH"
                continue
            if res.deferred_broken and verdict == "SURVIVED":
                by.append("%s:BROKEN(%s)" % (pid, res.deferred_broken[0][:60]))
                verdict = "INVALID"
            new = sorted({f.rule for f in res.findings if (pid, f.key) not in known})
            if new:
                verdict = "KILLED"
                by.append("%s:%s" % (pid, ",".join(new)))
                break
    finally:
        open(path, "wb").write(orig)
    return (ln, tag, verdict, by, old.strip(), newline.strip())


def main():
    ap = argparse.ArgumentParser()
    ap.add_argument("file")
    ap.add_argument("lo", type=int)
    ap.add_argument("hi", type=int)
    ap.add_argument("props")
    ap.add_argument("--out")
    ap.add_argument("--jobs", type=int, default=12)
    ap.add_argument("--max", type=int, default=0)
    a = ap.parse_args()
    os.environ["ACQ_NO_EVIDENCE"] = "1"
    os.environ["ACQ_NO_CONTROLS"] = "1"
    src = open(os.path.join("/repo", a.file), "rb").read().decode().splitlines(keepends=True)
    ms = mutants(src, a.lo, a.hi)
    if a.max:
        ms = ms[:a.max]
    props = a.props.split(",")
    jobs = [(a.file, ln, tag, new, props) for ln, tag, new in ms]
    t0 = time.time()
    res = []
    with Pool(a.jobs, initializer=_init) as pool:
        for r in pool.imap_unordered(_run, jobs):
            res.append(r)
            if r[2] != "SURVIVED":
                print("%-8s %s:%d %-22s %s   [%s] -> [%s]" % (r[2], a.file.split("/")[-1], r[0], r[1], " ".join(r[3]), r[4][:70], r[5][:70]), flush=True)
    res.sort()
    n = len(res)
    k = sum(1 for r in res if r[2] == "KILLED")
    inv = sum(1 for r in res if r[2] == "INVALID")
    print("== %s:%d-%d  %d rewrites: %d ALARMS, %d invalid/broken, %d silent, %d crash  (%.0f s)" % (
        a.file, a.lo, a.hi, n, k, inv, sum(1 for r in res if r[2] == "SURVIVED"), sum(1 for r in res if r[2] == "CRASH"), time.time() - t0))
    if a.out:
        json.dump([{"line": r[0], "op": r[1], "verdict": r[2], "by": r[3], "old": r[4], "new": r[5]} for r in res],
                  open(a.out, "w"), indent=1)


if __name__ == "__main__":
    main()
