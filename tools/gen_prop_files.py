#!/usr/bin/env python3
"""tools/gen_prop_files.py: which source files does each property's check analyse?  (functions_analysed and
obligation locations of evidence/<id>.json, plus the property's anchor files.)  Used by tools/matrix.py with
MATRIX_RELEVANT=1 to skip checks that cannot see a patch.  Run after the quick tier of all checks."""
import json, re, glob, os
V = os.path.dirname(os.path.dirname(os.path.abspath(__file__)))
props = {json.loads(l)['id']: json.loads(l) for l in open(V + '/properties.jsonl')}
out = {}
for p in sorted(glob.glob(V + '/evidence/C*.json')):
    d = json.load(open(p)); pid = d['property_id']; cov = d['coverage']
    files = set()
    for f in cov.get('functions_analysed', []):
        m = re.search(r'\(([^()]+\.(?:c|cpp|h))\)\s*$', f)
        if m:
            files.add(m.group(1))
    obl = cov.get('obligations')
    for o in obl if isinstance(obl, list) else []:
        m = re.match(r'([\w./+-]+\.(?:c|cpp|h)):', o.get('where', '') if isinstance(o, dict) else '')
        if m:
            files.add(m.group(1))
    files |= set(props[pid]['anchors'].get('files', []))
    out[pid] = sorted(files)
json.dump(out, open(V + '/tools/prop_files.json', 'w'), indent=1)
print({k: len(v) for k, v in out.items()})
